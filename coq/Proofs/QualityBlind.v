(** FASTA input gives the same names and sequences as FASTQ input when no quality-based option is
    used: the pipeline model, run on a read with its qualities dropped, yields the same fate, the
    same matches and the output read with its qualities dropped. *)
From Coq Require Import ZArith List Bool Lia.
From CV Require Import Model.Base Model.Align Model.Adapters Model.Qualtrim Model.Pipeline.
Import ListNotations.
Open Scope Z_scope.

Definition dq (r : read) : read := mkR (rname r) (rseq r) None.

Lemma dq_rslice lo hi r : rslice lo hi (dq r) = dq (rslice lo hi r).
Proof. reflexivity. Qed.
Lemma dq_revcomp r : revcomp_read (dq r) = dq (revcomp_read r).
Proof. reflexivity. Qed.
Lemma dq_s_trimmed x r : s_trimmed x (dq r) = dq (s_trimmed x r).
Proof. unfold s_trimmed. destruct (mside (sm x) =? 0); reflexivity. Qed.
Lemma dq_m_trimmed m r : m_trimmed m (dq r) = dq (m_trimmed m r).
Proof. destruct m as [idx x|idx f b]; cbn [m_trimmed]; [apply dq_s_trimmed|]. destruct f, b; rewrite ?dq_s_trimmed; reflexivity. Qed.

Lemma dq_rounds ads : forall t r, rounds ads t (dq r) = (dq (fst (rounds ads t r)), snd (rounds ads t r)).
Proof.
  induction t as [|t IH]; intros r; cbn [rounds]; [reflexivity|]. cbn [dq rseq].
  destruct (best_match ads (rseq r)) as [m|]; [|reflexivity].
  rewrite dq_m_trimmed, IH. destruct (rounds ads t (m_trimmed m r)) as [r' ms]. reflexivity.
Qed.

Lemma dq_match_and_trim ads times act r :
  match_and_trim ads times act (dq r) = (dq (fst (match_and_trim ads times act r)), snd (match_and_trim ads times act r)).
Proof.
  unfold match_and_trim.
  set (r1 := match act with ALowercase => mkR (rname r) (upper (rseq r)) (rqual r) | _ => r end).
  assert (E : match act with ALowercase => mkR (rname (dq r)) (upper (rseq (dq r))) (rqual (dq r)) | _ => dq r end = dq r1)
    by (subst r1; destruct act; reflexivity).
  rewrite E, dq_rounds. destruct (rounds ads times r1) as [trimmed ms]. cbn [fst snd].
  destruct ms as [|m0 ms']; [reflexivity|].
  destruct (remainder (map m_remainder (m0 :: ms'))) as [a b].
  destruct act; cbn [fst snd]; try reflexivity.
  - destruct (last_match (m0 :: ms')) as [m|]; [|reflexivity]. destruct (m_retained m). reflexivity.
  - destruct (last_match (m0 :: ms')) as [[idx x|idx f bb]|]; reflexivity.
Qed.

Lemma dq_revcomp_stage ads times act suffix r :
  revcomp_stage ads times act suffix (dq r) =
  (dq (fst (fst (revcomp_stage ads times act suffix r))), snd (fst (revcomp_stage ads times act suffix r)), snd (revcomp_stage ads times act suffix r)).
Proof.
  unfold revcomp_stage. rewrite dq_revcomp, !dq_match_and_trim.
  destruct (match_and_trim ads times act r) as [fr fms]. destruct (match_and_trim ads times act (revcomp_read r)) as [rr rms]. cbn [fst snd].
  destruct ((match rms with [] => false | _ => true end) && (sum_scores fms <? sum_scores rms)); reflexivity.
Qed.

(** infos related: everything equal except that the remembered original read has its qualities dropped *)
Definition irel (i i' : minfo) : Prop :=
  i_matches i' = i_matches i /\ i_is_rc i' = i_is_rc i /\ i_original i' = dq (i_original i) /\
  i_qtrimmed i' = i_qtrimmed i /\ i_polya i' = i_polya i /\ i_aliased i' = i_aliased i.

Definition quality_stage (st : stage) : bool := match st with StNextseq _ | StQual _ _ => true | _ => false end.

Lemma dq_apply_stage o st r i i' : quality_stage st = false -> irel i i' ->
  fst (apply_stage o st (dq r, i')) = dq (fst (apply_stage o st (r, i))) /\ irel (snd (apply_stage o st (r, i))) (snd (apply_stage o st (dq r, i'))).
Proof.
  intros Hq (H1 & H2 & H3 & H4 & H5 & H6). destruct st; try discriminate; cbn [apply_stage].
  - (* cut *) split; [destruct (0 <? n); reflexivity|]. unfold irel; cbn. repeat split; auto.
  - (* adapters *)
    assert (Ho : orig_after_adapters o i' = dq (orig_after_adapters o i)).
    { unfold orig_after_adapters. rewrite H6, H3. destruct (o_action o); try reflexivity. destruct (i_aliased i); reflexivity. }
    destruct (o_revcomp o).
    + rewrite dq_revcomp_stage. destruct (revcomp_stage (o_adapters o) (o_times o) (o_action o) [32; 114; 99] r) as [[r' ms] rc].
      cbn [fst snd]. split; [reflexivity|]. unfold irel; cbn. rewrite H1, H4, H5. repeat split; auto.
    + rewrite dq_match_and_trim. destruct (match_and_trim (o_adapters o) (o_times o) (o_action o) r) as [r' ms].
      cbn [fst snd]. split; [reflexivity|]. unfold irel; cbn. rewrite H1, H2, H4, H5. repeat split; auto.
  - (* poly-A *) split; [reflexivity|]. unfold irel; cbn. repeat split; auto.
  - (* poly-T *) split; [reflexivity|]. unfold irel; cbn. repeat split; auto.
  - (* length *) split; [destruct (0 <=? n); reflexivity|]. unfold irel. repeat split; auto.
  - (* trim-n *) split; [reflexivity|]. unfold irel. repeat split; auto.
  - (* length tag *) split; [reflexivity|]. unfold irel. repeat split; auto.
  - (* strip suffix *) split; [reflexivity|]. unfold irel. repeat split; auto.
  - (* prefix/suffix *) split; [unfold dq; cbn; rewrite H1; reflexivity|]. unfold irel. repeat split; auto.
  - (* zero cap: touches qualities only *) split; [reflexivity|]. unfold irel. repeat split; auto.
Qed.

Lemma dq_fold o : forall sts r i i', forallb (fun st => negb (quality_stage st)) sts = true -> irel i i' ->
  let a := fold_left (fun ri st => apply_stage o st ri) sts (r, i) in
  let b := fold_left (fun ri st => apply_stage o st ri) sts (dq r, i') in
  fst b = dq (fst a) /\ irel (snd a) (snd b).
Proof.
  induction sts as [|st t IH]; intros r i i' Hq Hi; cbn [fold_left]; [split; [reflexivity | exact Hi]|].
  cbn [forallb] in Hq. apply andb_prop in Hq. destruct Hq as [Hs Ht]. apply negb_true_iff in Hs.
  destruct (dq_apply_stage o st r i i' Hs Hi) as [E1 E2].
  destruct (apply_stage o st (r, i)) as [r1 i1]. destruct (apply_stage o st (dq r, i')) as [r1' i1']. cbn [fst snd] in *. subst r1'.
  apply IH; assumption.
Qed.

Definition no_quality_options (o : options) : Prop := o_nextseq o = None /\ o_qcut o = None /\ o_float_filters o = [].

Lemma stages_no_quality order o : no_quality_options o -> forallb (fun st => negb (quality_stage st)) (stages order o) = true.
Proof.
  intros (Hn & Hq & _). unfold stages. induction order as [|k t IH]; [reflexivity|]. cbn [flat_map]. rewrite forallb_app, IH, andb_true_r.
  destruct k; cbn [stages_of_kind]; rewrite ?Hn, ?Hq; try reflexivity.
  - induction (o_cuts o); [reflexivity | cbn; assumption].
  - destruct (o_adapters o); reflexivity.
  - destruct (o_poly_a o), (o_poly_t o); reflexivity.
  - destruct (o_length o); reflexivity.
  - destruct (o_trim_n o); reflexivity.
  - destruct (o_length_tag o); reflexivity.
  - induction (o_strip_suffix o); [reflexivity | cbn; assumption].
  - destruct (o_prefix o), (o_suffix o); reflexivity.
  - destruct (o_zero_cap o); reflexivity.
Qed.

Lemma run_filters_dq forder o r i i' : no_quality_options o -> i_matches i' = i_matches i ->
  run_filters (filters forder o) (dq r) i' = run_filters (filters forder o) r i.
Proof.
  intros (_ & _ & Hf) Hm. unfold filters. induction forder as [|k t IH]; [reflexivity|]. cbn [flat_map].
  assert (Hk : forall rest, (run_filters rest (dq r) i' = run_filters rest r i) ->
            run_filters (filters_of_kind o k ++ rest) (dq r) i' = run_filters (filters_of_kind o k ++ rest) r i).
  { intros rest Hrest. destruct k; cbn [filters_of_kind]; unfold float_filters; rewrite ?Hf; cbn [filter map app].
    - destruct (o_min_len o); cbn [app run_filters]; [unfold rlen; cbn [dq rseq]; destruct (zlen (rseq r) <? z)|]; auto.
    - destruct (o_max_len o); cbn [app run_filters]; [unfold rlen; cbn [dq rseq]; destruct (z <? zlen (rseq r))|]; auto.
    - destruct (o_max_n o); cbn [app run_filters]; [cbn [dq rseq]; destruct (z <? n_count (rseq r))|]; auto.
    - exact Hrest.
    - exact Hrest.
    - destruct (o_casava o); cbn [app run_filters]; [cbn [dq rname]; destruct (casava_filtered (rname r))|]; auto.
    - destruct (o_demux o); [exact Hrest|]. destruct (o_discard_trimmed o); cbn [app run_filters]; [rewrite Hm; destruct (i_matches i)|]; auto.
    - destruct (o_demux o); [exact Hrest|]. destruct (o_discard_trimmed o); [exact Hrest|].
      destruct (o_discard_untrimmed o); cbn [app run_filters]; [rewrite Hm; destruct (i_matches i)|]; auto.
    - destruct (o_demux o); [exact Hrest|]. destruct (o_discard_trimmed o || o_discard_untrimmed o); [exact Hrest|].
      destruct (o_untrimmed_output o); cbn [app run_filters]; [rewrite Hm; destruct (i_matches i)|]; auto. }
  apply Hk. exact IH.
Qed.

(** the whole pipeline on one read *)
Theorem quality_blind order forder o r : no_quality_options o ->
  let out := process_read order forder o r in
  let out' := process_read order forder o (dq r) in
  out_fate out' = out_fate out /\ out_read out' = dq (out_read out) /\ out_matches out' = out_matches out /\
  out_is_rc out' = out_is_rc out /\ out_in_len out' = out_in_len out.
Proof.
  intros Hnq. unfold process_read, modify.
  assert (Hi0 : irel (init_info r) (init_info (dq r))) by (unfold irel, init_info; cbn; repeat split; reflexivity).
  destruct (dq_fold o (stages order o) r (init_info r) (init_info (dq r)) (stages_no_quality order o Hnq) Hi0) as [E1 E2].
  cbv zeta in E1, E2.
  destruct (fold_left (fun ri st => apply_stage o st ri) (stages order o) (r, init_info r)) as [r1 i1].
  destruct (fold_left (fun ri st => apply_stage o st ri) (stages order o) (dq r, init_info (dq r))) as [r1' i1'].
  cbn [fst snd] in *. subst r1'. destruct E2 as (H1 & H2 & H3 & H4 & H5 & H6).
  cbn [out_fate out_read out_matches out_is_rc out_in_len]. repeat split; auto.
  unfold fate_of. rewrite (run_filters_dq forder o r1 i1 i1' Hnq H1). destruct (run_filters (filters forder o) r1 i1); [reflexivity|].
  unfold sink. rewrite H1. reflexivity.
Qed.
