(** Theorems that depend on the construction orders regenerated from cli.py
    (Generated/Orders.v): C10 (documented modifier order), C11 (documented filter order and
    criteria), C03 instantiated for the real order, C15 (routing by adapter name). *)
From Coq Require Import ZArith List Bool Lia.
From CV Require Import Generated.Tables Generated.Orders Model.Base Model.Align Model.Adapters Model.Kmer Model.Qualtrim
  Model.Pipeline Model.PipelineRun
  Proofs.AlignProofs Proofs.AdapterProofs Proofs.KmerProofs Proofs.SliceProofs Proofs.StageProofs Proofs.ActionProofs
  Proofs.ModifyProofs Proofs.PipelineProofs.
Import ListNotations.
Open Scope Z_scope.

(** ---- C10: the order found in cli.py today is the documented one:
    cut, NextSeq, quality, adapters, poly-A, --length, --trim-n, --length-tag, --strip-suffix,
    prefix/suffix, zero-cap; renaming (not a stage of the model) comes last *)
Definition documented_modifier_order : list kind :=
  [KCut; KNextseq; KQual; KAdapters; KPolyA; KLength; KTrimN; KLengthTag; KStripSuffix; KPrefixSuffix; KZeroCap].

Lemma modifier_order_documented :
  modifier_order = documented_modifier_order /\
  modifier_order_with_rename = map Some documented_modifier_order ++ [None].
Proof. split; reflexivity. Qed.

(** ---- C11: filter order *)
Definition documented_filter_order : list fkind :=
  [FTooShort; FTooLong; FMaxN; FMaxEE; FMaxAER; FCasava; FDiscardTrimmed; FDiscardUntrimmed; FUntrimmedOut].

Lemma filter_order_documented :
  filter_order = documented_filter_order /\ text_writers_before_filters = true /\ sink_after_filters = true.
Proof. repeat split; reflexivity. Qed.

(** the criteria, one by one (category code, predicate, redirect) *)
Lemma criteria o :
  (forall m, o_min_len o = Some m ->
     filters_of_kind o FTooShort = [(1, fun r _ => rlen r <? m, if o_too_short_output o then Some 1 else None)]) /\
  (forall m, o_max_len o = Some m ->
     filters_of_kind o FTooLong = [(2, fun r _ => m <? rlen r, if o_too_long_output o then Some 2 else None)]) /\
  (forall c, o_max_n o = Some c ->
     filters_of_kind o FMaxN = [(3, fun r _ => c <? n_count (rseq r), None)]) /\
  (o_casava o = true -> filters_of_kind o FCasava = [(6, fun r _ => casava_filtered (rname r), None)]) /\
  (o_min_len o = None -> filters_of_kind o FTooShort = []) /\
  (o_max_len o = None -> filters_of_kind o FTooLong = []) /\
  (o_casava o = false -> filters_of_kind o FCasava = []).
Proof.
  repeat split; intros; cbn [filters_of_kind]; try rewrite H; reflexivity.
Qed.

(** boundary cases: a read exactly as long as -m / -M, or with exactly --max-n N's, is kept *)
Lemma boundary_kept r (i : minfo) m :
  (rlen r = m -> (rlen r <? m) = false) /\ (rlen r = m -> (m <? rlen r) = false) /\
  (n_count (rseq r) = m -> (m <? n_count (rseq r)) = false).
Proof. repeat split; intros H; apply Z.ltb_ge; lia. Qed.

(** ---- the stages of the real order split around the adapter stage *)
Lemma stages_cli_decomp o :
  exists pre mid post,
    stages modifier_order o = pre ++ mid ++ post /\ (mid = [] \/ mid = [StAdapters]) /\
    Forall (fun st => st <> StAdapters) pre /\ Forall (fun st => st <> StAdapters) post.
Proof.
  exists (stages_of_kind o KCut ++ stages_of_kind o KNextseq ++ stages_of_kind o KQual),
         (stages_of_kind o KAdapters),
         (stages_of_kind o KPolyA ++ stages_of_kind o KLength ++ stages_of_kind o KTrimN ++ stages_of_kind o KLengthTag ++
          stages_of_kind o KStripSuffix ++ stages_of_kind o KPrefixSuffix ++ stages_of_kind o KZeroCap).
  split.
  - unfold stages, modifier_order. cbn [flat_map]. rewrite !app_nil_r. rewrite <- !app_assoc. reflexivity.
  - split.
    + cbn [stages_of_kind]. destruct (o_adapters o); auto.
    + split; repeat (apply Forall_app; split); cbn [stages_of_kind]; apply Forall_forall; intros st Hin.
      all: try (apply in_map_iff in Hin; destruct Hin as (? & <- & _); discriminate).
      all: try (destruct (o_nextseq o); cbn in Hin; intuition (subst; discriminate)).
      all: try (destruct (o_qcut o) as [[? ?]|]; cbn in Hin; intuition (subst; discriminate)).
      all: try (destruct (o_poly_a o), (o_poly_t o); cbn in Hin; intuition (subst; discriminate)).
      all: try (destruct (o_length o); cbn in Hin; intuition (subst; discriminate)).
      all: try (destruct (o_trim_n o); cbn in Hin; intuition (subst; discriminate)).
      all: try (destruct (o_length_tag o); cbn in Hin; intuition (subst; discriminate)).
      all: try (destruct (o_prefix o), (o_suffix o); cbn in Hin; intuition (subst; discriminate)).
      all: try (destruct (o_zero_cap o); cbn in Hin; intuition (subst; discriminate)).
Qed.

(** C03 for the pipeline the CLI builds (actions trim and none; mask/lowercase/retain/crop: ActionProofs) *)
Theorem cli_output_is_slice o r :
  Forall wf_padapter (o_adapters o) -> wf_read r -> (o_action o = ATrim \/ o_action o = ANone) ->
  let out := process_cli o r in
  wf_read (out_read out) /\ out_rel o r (out_read out) (out_is_rc out).
Proof.
  intros Hwf Hr Hact. cbn zeta. unfold process_cli, process_read.
  destruct (stages_cli_decomp o) as (pre & mid & post & Hdec & Hmid & Hpre & Hpost).
  pose proof (modify_slice_decomp modifier_order o r pre mid post Hdec Hmid Hpre Hpost Hwf Hr Hact) as H.
  destruct (modify modifier_order o r) as [r' i]. cbn [fst snd out_read out_is_rc] in *. exact H.
Qed.

(** sequence and qualities of every output read have equal length, for every action but retain/crop
    (those two are slices as well: rslice; covered by wf_rslice in the model's own terms) *)

(** ---- C15: the demultiplexer routes by the adapter of the last match *)
Theorem demux_routing o i :
  o_demux o = true ->
  sink o i = match last_match (i_matches i) with
             | Some m => Written (10 + Z.of_nat (m_idx m))
             | None => if o_discard_untrimmed o then Filtered 8 None
                       else if o_untrimmed_output o then Written 3 else Written 9
             end.
Proof. intros H. unfold sink. rewrite H. reflexivity. Qed.

(** with {name} in the output path the trimmed/untrimmed filters are not in the pipeline *)
Lemma demux_no_trim_filters o : o_demux o = true ->
  filters_of_kind o FDiscardTrimmed = [] /\ filters_of_kind o FDiscardUntrimmed = [] /\ filters_of_kind o FUntrimmedOut = [].
Proof. intros H. cbn [filters_of_kind]. rewrite H. auto. Qed.

(** the same option set without demultiplexing: same modified read, same filter decisions *)
Definition undemux (o : options) : options :=
  mkO (o_cuts o) (o_nextseq o) (o_qcut o) (o_qbase o) (o_adapters o) (o_times o) (o_action o) (o_revcomp o) (o_poly_a o) (o_poly_t o)
      (o_length o) (o_trim_n o) (o_length_tag o) (o_strip_suffix o) (o_prefix o) (o_suffix o) (o_zero_cap o)
      (o_min_len o) (o_max_len o) (o_max_n o) (o_float_filters o) (o_casava o) (o_discard_trimmed o) (o_discard_untrimmed o)
      (o_untrimmed_output o) (o_too_short_output o) (o_too_long_output o) false (o_info_file o).

Lemma modify_undemux order o r : modify order (undemux o) r = modify order o r.
Proof. destruct o. reflexivity. Qed.

Theorem demux_same_records o r :
  o_demux o = true -> o_discard_trimmed o = false -> o_discard_untrimmed o = false -> o_untrimmed_output o = false ->
  let a := process_cli o r in
  let b := process_cli (undemux o) r in
  out_read a = out_read b /\
  (is_written a = is_written b) /\
  (is_written b = true -> out_file b = Some 0).
Proof.
  intros Hd H1 H2 H3. cbn zeta. unfold process_cli, process_read.
  rewrite modify_undemux. destruct (modify modifier_order o r) as [r' i]. cbn [out_read].
  split; [reflexivity|].
  assert (Hf : run_filters (filters filter_order (undemux o)) r' i = run_filters (filters filter_order o) r' i).
  { unfold filters, filter_order. cbn [flat_map filters_of_kind].
    destruct o; cbn in Hd, H1, H2, H3. subst. reflexivity. }
  unfold is_written, out_file, fate_of; cbn [out_fate]. rewrite Hf.
  destruct (run_filters (filters filter_order o) r' i) as [f|] eqn:E.
  - destruct (run_filters_only_filtered _ _ _ _ E) as (c & rd & ->). split; [reflexivity | discriminate].
  - unfold sink. destruct o; cbn in Hd, H1, H2, H3. subst. cbn.
    destruct (last_match (i_matches i)); split; reflexivity.
Qed.

(** ---- C17, known finding F17 on the faithful model: -u 5 -a TTTTGGGG on AAAACCCCTTTTGGGGACGT; the adapter is
    found at [7,15) of the cut read, the info row shows original[7:15] = ACCCCTTT instead of TTTTGGGG *)
Definition f17_o : options :=
  mkO [5] None None 33 [PSingle [49] (mkAd Back [84;84;84;84;71;71;71;71] false false true 3 false) [0;0;0;0;0;0;0;0;0]] 1 ATrim false false false
      None false None [] [] [] false None None None [] false false false false false false false true.
Definition f17_r : read := mkR [114] [65;65;65;65;67;67;67;67;84;84;84;84;71;71;71;71;65;67;71;84] None.
Lemma f17_witness :
  exists row, out_info (process_cli f17_o f17_r) = [row] /\
              field_str (nth 5 row (FI 0)) = [65;67;67;67;67;84;84;84] /\
              field_str (nth 5 row (FI 0)) <> [84;84;84;84;71;71;71;71].
Proof. eexists. vm_compute. split; [reflexivity|]. split; [reflexivity | discriminate]. Qed.
