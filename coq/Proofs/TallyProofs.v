(** C20: the per-adapter tallies kept incrementally equal the counts over the list of applied
    matches; the "allowed errors" ranges state exactly thr L = int(L * rate). *)
From Coq Require Import ZArith List Bool Lia.
From CV Require Import Model.Base Model.Align Model.Adapters Model.Pipeline Proofs.AlignProofs Proofs.PipelineProofs.
Import ListNotations.
Open Scope Z_scope.

Definition lookup_key (k : skey) (l : list (skey * Z)) : Z :=
  fold_right (fun kn acc => if skey_eqb (fst kn) k then snd kn + acc else acc) 0 l.

Lemma skey_eqb_refl k : skey_eqb k k = true.
Proof. destruct k as [[[a b] c] d]. cbn. rewrite !Z.eqb_refl. reflexivity. Qed.

Lemma skey_eqb_eq k k' : skey_eqb k k' = true -> k = k'.
Proof.
  destruct k as [[[a b] c] d], k' as [[[a' b'] c'] d']. cbn. intros H.
  apply andb_prop in H. destruct H as [H H4]. apply andb_prop in H. destruct H as [H H3].
  apply andb_prop in H. destruct H as [H1 H2].
  apply Z.eqb_eq in H1, H2, H3, H4. congruence.
Qed.

Lemma lookup_bump k k' l :
  lookup_key k (bump_key k' l) = lookup_key k l + (if skey_eqb k' k then 1 else 0).
Proof.
  induction l as [|[k0 n] t IH]; cbn [bump_key lookup_key fold_right fst snd].
  - destruct (skey_eqb k' k); lia.
  - destruct (skey_eqb k0 k') eqn:E0; cbn [lookup_key fold_right fst snd].
    + apply skey_eqb_eq in E0. subst k0. destruct (skey_eqb k' k); lia.
    + fold (lookup_key k t). fold (lookup_key k (bump_key k' t)). rewrite IH. destruct (skey_eqb k0 k); lia.
Qed.

Theorem tally_counts evs k :
  lookup_key k (tally evs) = zsum_map (fun e => if skey_eqb (ev_key e) k then 1 else 0) evs.
Proof.
  unfold tally.
  assert (H : forall acc, lookup_key k (fold_left (fun acc e => bump_key (ev_key e) acc) evs acc) =
                          lookup_key k acc + zsum_map (fun e => if skey_eqb (ev_key e) k then 1 else 0) evs).
  { induction evs as [|e t IH]; intros acc; cbn [fold_left]; rewrite ?zsum_map_cons, ?zsum_map_nil; [lia|].
    rewrite IH, lookup_bump. lia. }
  rewrite H. cbn. lia.
Qed.

(** the tally of a concatenation is the sum of the tallies (statistics merge, C06) *)
Theorem tally_app evs1 evs2 k :
  lookup_key k (tally (evs1 ++ evs2)) = lookup_key k (tally evs1) + lookup_key k (tally evs2).
Proof.
  rewrite !tally_counts. induction evs1 as [|e t IH]; cbn [app]; rewrite ?zsum_map_cons, ?zsum_map_nil; lia.
Qed.

(** ---- error ranges *)
Definition below (L : Z) (l : list Z) : Z := zlen (filter (fun x => x <? L) l).

Lemma below_app L a b : below L (a ++ b) = below L a + below L b.
Proof. unfold below. rewrite filter_app. unfold zlen. rewrite app_length. lia. Qed.

Lemma below_repeat L v n : below L (repeat v n) = if v <? L then Z.of_nat n else 0.
Proof.
  unfold below. induction n as [|n IH]; cbn [repeat filter]; [destruct (v <? L); reflexivity|].
  destruct (v <? L) eqn:E; [rewrite zlen_cons', IH; lia | exact IH].
Qed.

Lemma filter_all_id {A} (f : A -> bool) : forall l, (forall x, In x l -> f x = true) -> filter f l = l.
Proof.
  induction l as [|x l IH]; intros H; [reflexivity|]. cbn [filter].
  rewrite (H x (or_introl eq_refl)). f_equal. apply IH. intros y Hy. apply H. right. exact Hy.
Qed.

Lemma zlen_app {A} (a b : list A) : zlen (a ++ b) = zlen a + zlen b.
Proof. unfold zlen. rewrite app_length. lia. Qed.

Lemma zlen_repeat {A} (v : A) n : zlen (repeat v n) = Z.of_nat n.
Proof. unfold zlen. rewrite repeat_length. reflexivity. Qed.

Section Ranges.
  Variable thr : Z -> Z.
  Hypothesis thr0 : thr 0 = 0.
  Hypothesis thr_mono : forall a b, 0 <= a <= b -> thr a <= thr b.

  (** invariant after the lengths 1..L have been processed *)
  Definition rinv (L : Z) (acc : list Z) : Prop :=
    zlen acc = thr L /\ (forall x, In x acc -> x < L) /\ (forall l, 1 <= l <= L -> below l acc = thr l).

  Lemma eranges_step L acc : 0 <= L -> rinv L acc ->
    rinv (L + 1) (acc ++ repeat (L + 1 - 1) (Z.to_nat (thr (L + 1) - zlen acc))).
  Proof.
    intros HL (h1 & h2 & h3). replace (L + 1 - 1) with L by lia.
    assert (Hm : thr L <= thr (L + 1)) by (apply thr_mono; lia).
    split; [|split].
    - rewrite zlen_app, zlen_repeat. lia.
    - intros x Hx. apply in_app_or in Hx. destruct Hx as [Hx|Hx]; [specialize (h2 x Hx); lia|].
      apply repeat_spec in Hx. lia.
    - intros l Hl. rewrite below_app, below_repeat.
      destruct (Z.eq_dec l (L + 1)) as [->|Hne].
      + assert (E : (L <? L + 1) = true) by (apply Z.ltb_lt; lia). rewrite E.
        assert (Hall : below (L + 1) acc = zlen acc).
        { unfold below. f_equal. apply filter_all_id. intros x Hx. apply Z.ltb_lt. specialize (h2 x Hx). lia. }
        rewrite Hall. lia.
      + assert (E : (L <? l) = false) by (apply Z.ltb_ge; lia). rewrite E. rewrite h3 by lia. lia.
  Qed.

  Lemma eranges_aux_inv : forall cnt L acc, 0 <= L -> rinv L acc ->
    rinv (L + Z.of_nat cnt) (eranges_aux thr (zrange (L + 1) cnt) acc).
  Proof.
    induction cnt as [|c IH]; intros L acc HL Hinv; cbn [zrange eranges_aux].
    - replace (L + Z.of_nat 0) with L by lia. exact Hinv.
    - replace (L + Z.of_nat (S c)) with (L + 1 + Z.of_nat c) by lia.
      apply IH; [lia|]. apply eranges_step; assumption.
  Qed.

  Theorem error_ranges_spec n L : 0 <= n -> 1 <= L <= n ->
    below L (error_ranges thr n) = thr L.
  Proof.
    intros Hn HL. unfold error_ranges. rewrite below_app.
    assert (H0 : rinv 0 []).
    { split; [|split]; [rewrite thr0; reflexivity | intros x [] | intros l Hl; lia]. }
    pose proof (eranges_aux_inv (Z.to_nat n) 0 [] ltac:(lia) H0) as (h1 & h2 & h3).
    replace (0 + 1) with 1 in * by lia. replace (0 + Z.of_nat (Z.to_nat n)) with n in * by lia.
    rewrite h3 by lia. unfold below. cbn [filter].
    assert (E : (n <? L) = false) by (apply Z.ltb_ge; lia). rewrite E. cbn. lia.
  Qed.

  (** the last entry is the adapter length and the list has thr n + 1 entries *)
  Theorem error_ranges_shape n : 0 <= n ->
    zlen (error_ranges thr n) = thr n + 1 /\ List.last (error_ranges thr n) 0 = n.
  Proof.
    intros Hn. unfold error_ranges.
    assert (H0 : rinv 0 []).
    { split; [|split]; [rewrite thr0; reflexivity | intros x [] | intros l Hl; lia]. }
    pose proof (eranges_aux_inv (Z.to_nat n) 0 [] ltac:(lia) H0) as (h1 & h2 & h3).
    replace (0 + 1) with 1 in * by lia. replace (0 + Z.of_nat (Z.to_nat n)) with n in * by lia.
    split; [rewrite zlen_app, h1; reflexivity | apply last_last].
  Qed.
End Ranges.
