(** C01 at the level of the adapter classes: ranges, documented placement rule per adapter
    type (tied to the flag values regenerated from adapters.py/align.py), minimum overlap,
    error threshold over the non-N adapter characters aligned, removal side.  For the two
    comparers (anchored, no indels) additionally: the reported error count *is* the Hamming
    distance of the two intervals. *)
From Coq Require Import ZArith List Bool Lia.
From CV Require Import Generated.Tables Generated.Scores Generated.Flags Model.Align Model.Adapters Proofs.AlignProofs.
Import ListNotations.
Open Scope Z_scope.

Definition zslice {A} (l : list A) (a b : Z) : list A := firstn (Z.to_nat (b - a)) (skipn (Z.to_nat a) l).

(** number of adapter characters that count for the error threshold *)
Definition nonN (wref : bool) (seg : list Z) : Z := if wref then zlen seg - count_n seg else zlen seg.

Lemma count_n_app a b : count_n (a ++ b) = count_n a + count_n b.
Proof. induction a as [|x a IH]; cbn [count_n app]; [lia | rewrite IH; lia]. Qed.

Lemma count_n_rev l : count_n (rev l) = count_n l.
Proof. induction l as [|x l IH]; [reflexivity|]. cbn [rev]. rewrite count_n_app. cbn [count_n]. lia. Qed.

Lemma count_n_bounds l : 0 <= count_n l <= zlen l.
Proof.
  induction l as [|x l IH]; cbn [count_n]; [unfold zlen; cbn; lia|].
  rewrite zlen_cons. destruct (is_n x); lia.
Qed.

Lemma firstn_add {A} : forall a b (l : list A), firstn (a + b) l = firstn a l ++ firstn b (skipn a l).
Proof.
  induction a as [|a IH]; intros b l; [reflexivity|].
  destruct l as [|x l]; cbn [Nat.add firstn skipn app]; [destruct b; reflexivity | rewrite IH; reflexivity].
Qed.

Lemma zslice_full {A} (l : list A) : zslice l 0 (zlen l) = l.
Proof.
  unfold zslice, zlen. replace (Z.to_nat (Z.of_nat (length l) - 0)) with (length l) by lia.
  cbn [Z.to_nat skipn]. apply firstn_all.
Qed.

Lemma zslice_length {A} (l : list A) a b : 0 <= a <= b -> b <= zlen l -> zlen (zslice l a b) = b - a.
Proof.
  intros H1 H2. unfold zslice, zlen in *. rewrite firstn_length, skipn_length. lia.
Qed.

Lemma count_n_firstn_split l rs re : 0 <= rs <= re ->
  count_n (firstn (Z.to_nat re) l) = count_n (firstn (Z.to_nat rs) l) + count_n (zslice l rs re).
Proof.
  intros H. unfold zslice. replace (Z.to_nat re) with (Z.to_nat rs + Z.to_nat (re - rs))%nat by lia.
  rewrite firstn_add, count_n_app. reflexivity.
Qed.

Lemma eff_len_slice cfg rawref s1 rs re :
  zlen rawref = zlen s1 -> 0 <= rs <= re -> re <= zlen s1 ->
  eff_len cfg rawref s1 (re - rs) re = nonN (wildcard_ref cfg) (zslice rawref rs re).
Proof.
  intros Hl H1 H2. unfold eff_len, nonN. destruct (wildcard_ref cfg).
  - rewrite zslice_length by lia. destruct (re - rs <? zlen s1) eqn:E.
    + unfold ncounts. replace (re - (re - rs)) with rs by lia.
      rewrite (count_n_firstn_split rawref rs re) by lia. lia.
    + apply Z.ltb_ge in E. assert (rs = 0) by lia. assert (re = zlen s1) by lia. subst rs re.
      rewrite <- Hl. rewrite zslice_full. unfold ncounts, zlen. rewrite Nat2Z.id, firstn_all. lia.
  - rewrite zslice_length by lia. reflexivity.
Qed.

Lemma zlen_map {A B} (f : A -> B) l : zlen (map f l) = zlen l.
Proof. unfold zlen; rewrite map_length; reflexivity. Qed.

Lemma zlen_rev {A} (l : list A) : zlen (rev l) = zlen l.
Proof. unfold zlen; rewrite rev_length; reflexivity. Qed.

(** ---- Aligner.locate including the translation step *)
Definition locate_ok (thr : Z -> Z) (cfg : acfg) (ref : list Z) (n : Z) (r : Z * Z * Z * Z * Z * Z) : Prop :=
  let m := zlen ref in
  let '(rs, re, qs, qe, sc, e) := r in
  0 <= rs <= re /\ re <= m /\ 0 <= qs <= qe /\ qe <= n /\
  (rs = 0 \/ qs = 0) /\
  (start_in_ref cfg = false -> rs = 0) /\ (start_in_query cfg = false -> qs = 0) /\
  (re = m \/ qe = n) /\
  (stop_in_ref cfg = false -> re = m) /\ (stop_in_query cfg = false -> qe = n) /\
  min_overlap cfg <= re - rs /\
  e <= thr (nonN (wildcard_ref cfg) (zslice ref rs re)).

Theorem locate_structure thr cfg wq ref query r :
  0 <= thr (zlen ref) ->
  locate thr cfg wq ref query = Some r -> locate_ok thr cfg ref (zlen query) r.
Proof.
  intros Hk H. unfold locate in H.
  set (s1 := if wildcard_ref cfg then _ else _) in H.
  set (s2 := if wq then _ else _) in H.
  assert (Hs1 : zlen s1 = zlen ref) by (subst s1; destruct (wildcard_ref cfg); [|destruct wq]; rewrite ?zlen_map; reflexivity).
  assert (Hs2 : zlen s2 = zlen query) by (subst s2; destruct wq; [|destruct (wildcard_ref cfg)]; rewrite ?zlen_map; reflexivity).
  apply locate_core_structure in H; [|rewrite Hs1; exact Hk].
  destruct r as [[[[[rs re] qs] qe] sc] e]. unfold result_ok in H. unfold locate_ok.
  rewrite Hs1, Hs2 in H.
  destruct H as (h1 & h2 & h3 & h4 & h5 & h6 & h7 & h8 & h9 & h10 & h11 & h12).
  rewrite eff_len_slice in h12 by (rewrite ?Hs1; auto; lia).
  repeat split; auto; lia.
Qed.

(** ---- the documented placement rule, per adapter type
    (m = adapter length, n = read length; [a0,a1) adapter interval, [r0,r1) read interval) *)
Definition semiglobal (m n a0 a1 r0 r1 : Z) : Prop := (a0 = 0 \/ r0 = 0) /\ (a1 = m \/ r1 = n).

Definition placement (t : atype) (force : bool) (m n a0 a1 r0 r1 : Z) : Prop :=
  match t with
  | Back => if force then semiglobal m n a0 a1 r0 r1 else a0 = 0 /\ (a1 = m \/ r1 = n)
  | Front | RightmostFront => if force then semiglobal m n a0 a1 r0 r1 else a1 = m /\ (a0 = 0 \/ r0 = 0)
  | Anywhere => semiglobal m n a0 a1 r0 r1
  | NonInternalFront => r0 = 0 /\ a1 = m         (* a prefix of the read against a suffix of the adapter *)
  | NonInternalBack => a0 = 0 /\ r1 = n          (* a suffix of the read against a prefix of the adapter *)
  | Prefix => a0 = 0 /\ a1 = m /\ r0 = 0
  | Suffix => a0 = 0 /\ a1 = m /\ r1 = n
  end.

Definition documented_side (t : atype) (r0 : Z) : Z :=
  match t with
  | Front | RightmostFront | NonInternalFront | Prefix => 0
  | Back | NonInternalBack | Suffix => 1
  | Anywhere => if r0 =? 0 then 0 else 1
  end.

(** what SingleAdapter.__init__ guarantees *)
Definition wf_adapter (ad : adapter) : Prop :=
  (match a_type ad with Prefix | Suffix => a_min_overlap ad = zlen (a_seq ad) | _ => True end) /\
  count_c 110 (a_seq ad) = 0.

Definition match_ok (thr : Z -> Z) (ad : adapter) (n : Z) (mt : amatch) : Prop :=
  let m := zlen (a_seq ad) in
  0 <= astart mt <= astop mt /\ astop mt <= m /\ 0 <= rstart mt <= rstop mt /\ rstop mt <= n /\
  placement (a_type ad) (a_force_anywhere ad) m n (astart mt) (astop mt) (rstart mt) (rstop mt) /\
  a_min_overlap ad <= astop mt - astart mt /\
  merrors mt <= thr (nonN (a_wref ad) (zslice (a_seq ad) (astart mt) (astop mt))) /\
  mside mt = documented_side (a_type ad) (rstart mt).

Lemma count_c_rev c l : count_c c (rev l) = count_c c l.
Proof.
  induction l as [|x l IH]; cbn [rev count_c]; [reflexivity|].
  assert (H : forall a b, count_c c (a ++ b) = count_c c a + count_c c b).
  { induction a as [|y a IHa]; intros b; cbn [app count_c]; [lia | rewrite IHa; lia]. }
  rewrite H, IH. cbn [count_c]. lia.
Qed.

Lemma count_n_as_c l : count_n l = count_c 78 l + count_c 110 l.
Proof.
  induction l as [|x l IH]; cbn [count_n count_c]; [reflexivity|]. rewrite IH. unfold is_n.
  destruct (x =? 78) eqn:E1; destruct (x =? 110) eqn:E2; cbn [orb]; try lia.
Qed.

Lemma comparer_eff_nonN wref seq : count_c 110 seq = 0 ->
  comparer_eff_len wref seq = nonN wref (zslice seq 0 (zlen seq)).
Proof.
  intros H. unfold comparer_eff_len, nonN. rewrite zslice_full, count_n_as_c, H. destruct wref; lia.
Qed.

Lemma zslice_rev {A} (l : list A) a b : 0 <= a <= b -> b <= zlen l ->
  zslice (rev l) a b = rev (zslice l (zlen l - b) (zlen l - a)).
Proof.
  intros H1 H2. unfold zslice, zlen in *.
  rewrite skipn_rev, <- (rev_involutive (firstn (Z.to_nat (b - a)) _)). f_equal.
  rewrite firstn_rev, rev_involutive, firstn_length.
  replace (Nat.min (length l - Z.to_nat a) (length l)) with (length l - Z.to_nat a)%nat by lia.
  replace (length l - Z.to_nat a - Z.to_nat (b - a))%nat with (Z.to_nat (Z.of_nat (length l) - b)) by lia.
  replace (length l - Z.to_nat a)%nat with (Z.to_nat (Z.of_nat (length l) - b) + Z.to_nat (Z.of_nat (length l) - a - (Z.of_nat (length l) - b)))%nat by lia.
  rewrite skipn_firstn_comm.
  replace (Z.to_nat (Z.of_nat (length l) - b) + Z.to_nat (Z.of_nat (length l) - a - (Z.of_nat (length l) - b)) - Z.to_nat (Z.of_nat (length l) - b))%nat
    with (Z.to_nat (Z.of_nat (length l) - a - (Z.of_nat (length l) - b))) by lia.
  reflexivity.
Qed.

Lemma nonN_rev wref l : nonN wref (rev l) = nonN wref l.
Proof. unfold nonN. rewrite zlen_rev, count_n_rev. reflexivity. Qed.

Ltac flagbits :=
  cbv [cfg_of start_in_ref start_in_query stop_in_ref stop_in_query wildcard_ref min_overlap] in *.

Theorem match_to_structure thr ad read mt :
  wf_adapter ad -> 0 <= thr (zlen (a_seq ad)) ->
  match_to thr ad read = Some mt -> match_ok thr ad (zlen read) mt.
Proof.
  intros [Hwf1 Hwf2] Hk H. unfold match_to in H.
  destruct (raw_locate thr ad read) as [[[[[[a0 a1] r0] r1] sc] e]|] eqn:Eraw; [|discriminate].
  inversion H; subst mt; clear H. unfold match_ok; cbn [astart astop rstart rstop merrors mside].
  unfold raw_locate in Eraw.
  pose proof (zlen_nonneg (a_seq ad)) as Hm. pose proof (zlen_nonneg read) as Hn.
  destruct ad as [t seq wref wq indels ov force]; cbn [a_type a_seq a_wref a_wq a_indels a_min_overlap a_force_anywhere] in *.
  destruct t; cbn [class_reversed class_upper_first class_side documented_side placement
                   cls_FrontAdapter_reversed cls_RightmostFrontAdapter_reversed cls_BackAdapter_reversed
                   cls_AnywhereAdapter_reversed cls_NonInternalFrontAdapter_reversed cls_NonInternalBackAdapter_reversed
                   cls_AnywhereAdapter_upper_first] in *.
  - (* Front *)
    apply locate_structure in Eraw; [|exact Hk]. unfold locate_ok in Eraw.
    unfold aligner_flags in Eraw; cbn [a_type a_force_anywhere class_flags] in Eraw.
    destruct force; vm_compute (Z.testbit _ _) in Eraw; flagbits; cbn [a_wref a_min_overlap] in Eraw;
      destruct Eraw as (h1 & h2 & h3 & h4 & h5 & h6 & h7 & h8 & h9 & h10 & h11 & h12);
      repeat split; auto; try lia; unfold semiglobal; try tauto.
    all: try (specialize (h9 eq_refl); tauto).
  - (* RightmostFront *)
    destruct (locate thr _ wq (rev seq) (rev read)) as [[[[[[rs re] qs] qe] sc'] e']|] eqn:El; [|discriminate].
    inversion Eraw; subst; clear Eraw.
    apply locate_structure in El; [|rewrite zlen_rev; exact Hk]. unfold locate_ok in El.
    rewrite !zlen_rev in El.
    unfold aligner_flags in El; cbn [a_type a_force_anywhere class_flags] in El.
    assert (Hsl : forall rs re, 0 <= rs <= re -> re <= zlen seq ->
                  nonN wref (zslice (rev seq) rs re) = nonN wref (zslice seq (zlen seq - re) (zlen seq - rs))).
    { intros. rewrite zslice_rev by lia. apply nonN_rev. }
    destruct force; vm_compute (Z.testbit _ _) in El; flagbits; cbn [a_wref a_min_overlap] in El;
      destruct El as (h1 & h2 & h3 & h4 & h5 & h6 & h7 & h8 & h9 & h10 & h11 & h12);
      rewrite Hsl in h12 by lia;
      repeat split; auto; try lia; unfold semiglobal; try tauto.
    all: try (specialize (h6 eq_refl); lia).
    all: try (split; [destruct h8; [left|right]; lia | destruct h5; [left|right]; lia]).
    all: try (destruct h8; [left|right]; lia).
  - (* Back *)
    apply locate_structure in Eraw; [|exact Hk]. unfold locate_ok in Eraw.
    unfold aligner_flags in Eraw; cbn [a_type a_force_anywhere class_flags] in Eraw.
    destruct force; vm_compute (Z.testbit _ _) in Eraw; flagbits; cbn [a_wref a_min_overlap] in Eraw;
      destruct Eraw as (h1 & h2 & h3 & h4 & h5 & h6 & h7 & h8 & h9 & h10 & h11 & h12);
      repeat split; auto; try lia; unfold semiglobal; try tauto.
    all: try (specialize (h6 eq_refl); tauto).
  - (* Anywhere *)
    apply locate_structure in Eraw; [|exact Hk]. unfold locate_ok in Eraw. rewrite zlen_map in Eraw.
    unfold aligner_flags in Eraw; cbn [a_type a_force_anywhere class_flags] in Eraw.
    vm_compute (Z.testbit _ _) in Eraw; flagbits; cbn [a_wref a_min_overlap] in Eraw;
      destruct Eraw as (h1 & h2 & h3 & h4 & h5 & h6 & h7 & h8 & h9 & h10 & h11 & h12).
    change (cls_AnywhereAdapter_side =? 2) with true; cbn iota.
    repeat split; auto; try lia; unfold semiglobal; try tauto.
  - (* NonInternalFront *)
    apply locate_structure in Eraw; [|exact Hk]. unfold locate_ok in Eraw.
    unfold aligner_flags in Eraw; cbn [a_type a_force_anywhere class_flags] in Eraw.
    vm_compute (Z.testbit _ _) in Eraw; flagbits; cbn [a_wref a_min_overlap] in Eraw;
      destruct Eraw as (h1 & h2 & h3 & h4 & h5 & h6 & h7 & h8 & h9 & h10 & h11 & h12).
    specialize (h7 eq_refl). specialize (h9 eq_refl).
    repeat split; auto; try lia.
  - (* NonInternalBack *)
    apply locate_structure in Eraw; [|exact Hk]. unfold locate_ok in Eraw.
    unfold aligner_flags in Eraw; cbn [a_type a_force_anywhere class_flags] in Eraw.
    vm_compute (Z.testbit _ _) in Eraw; flagbits; cbn [a_wref a_min_overlap] in Eraw;
      destruct Eraw as (h1 & h2 & h3 & h4 & h5 & h6 & h7 & h8 & h9 & h10 & h11 & h12).
    specialize (h6 eq_refl). specialize (h10 eq_refl).
    repeat split; auto; try lia.
  - (* Prefix *)
    destruct indels.
    + apply locate_structure in Eraw; [|exact Hk]. unfold locate_ok in Eraw.
      unfold aligner_flags in Eraw; cbn [a_type a_force_anywhere class_flags] in Eraw.
      vm_compute (Z.testbit _ _) in Eraw; flagbits; cbn [a_wref a_min_overlap] in Eraw;
        destruct Eraw as (h1 & h2 & h3 & h4 & h5 & h6 & h7 & h8 & h9 & h10 & h11 & h12).
      specialize (h6 eq_refl). specialize (h7 eq_refl). specialize (h9 eq_refl).
      repeat split; auto; try lia.
    + unfold prefix_locate in Eraw.
      match type of Eraw with (if ?c then _ else _) = _ => destruct c eqn:Ec; [discriminate|] end.
      apply orb_false_elim in Ec. destruct Ec as [Ek Eov]. apply Z.ltb_ge in Ek. apply Z.ltb_ge in Eov.
      inversion Eraw; subst; clear Eraw.
      assert (Hmin : Z.min (zlen seq) (zlen read) = zlen seq) by lia. rewrite Hmin in *.
      rewrite comparer_eff_nonN in Ek by exact Hwf2.
      repeat split; auto; try lia.
  - (* Suffix *)
    destruct indels.
    + apply locate_structure in Eraw; [|exact Hk]. unfold locate_ok in Eraw.
      unfold aligner_flags in Eraw; cbn [a_type a_force_anywhere class_flags] in Eraw.
      vm_compute (Z.testbit _ _) in Eraw; flagbits; cbn [a_wref a_min_overlap] in Eraw;
        destruct Eraw as (h1 & h2 & h3 & h4 & h5 & h6 & h7 & h8 & h9 & h10 & h11 & h12).
      specialize (h6 eq_refl). specialize (h9 eq_refl). specialize (h10 eq_refl).
      repeat split; auto; try lia.
    + unfold suffix_locate, prefix_locate in Eraw. rewrite !zlen_rev in Eraw.
      match type of Eraw with match (if ?c then _ else _) with _ => _ end = _ => destruct c eqn:Ec; [discriminate|] end.
      apply orb_false_elim in Ec. destruct Ec as [Ek Eov]. apply Z.ltb_ge in Ek. apply Z.ltb_ge in Eov.
      inversion Eraw; subst; clear Eraw.
      assert (Hmin : Z.min (zlen seq) (zlen read) = zlen seq) by lia. rewrite Hmin in *.
      rewrite comparer_eff_nonN in Ek by (rewrite count_c_rev; exact Hwf2).
      rewrite zslice_full, nonN_rev in Ek.
      replace (zlen seq - zlen seq) with 0 by lia. rewrite zslice_full.
      repeat split; auto; try lia.
Qed.

(** ---- comparers: the reported error count is the Hamming distance of the two intervals
    (position-wise comparison of the translated characters, [mismatches]) *)
Definition translate_pair (wref wq : bool) (ref query : list Z) : list Z * list Z :=
  (if wref then map (tr iupac_table) ref else if wq then map (tr acgt_table) ref else map (tr upper_table) ref,
   if wq then map (tr iupac_table) query else if wref then map (tr acgt_table) query else map (tr upper_table) query).

Definition eqc_of (wref wq : bool) : Z -> Z -> bool := if wq || wref then eq_and else eq_ascii.

Lemma mismatches_firstn eqc : forall a b,
  mismatches eqc a b = mismatches eqc (firstn (Nat.min (length a) (length b)) a) (firstn (Nat.min (length a) (length b)) b).
Proof.
  induction a as [|x a IH]; intros b; [reflexivity|].
  destruct b as [|y b]; [reflexivity|]. cbn [length Nat.min firstn mismatches]. rewrite <- IH. reflexivity.
Qed.

Theorem prefix_locate_exact wref wq max_k ov ref query a0 a1 r0 r1 sc e :
  prefix_locate wref wq max_k ov ref query = Some (a0, a1, r0, r1, sc, e) ->
  let '(s1, s2) := translate_pair wref wq ref query in
  a0 = 0 /\ r0 = 0 /\ a1 = r1 /\
  e = mismatches (eqc_of wref wq) (zslice s1 a0 a1) (zslice s2 r0 r1) /\
  e <= max_k /\ sc = (a1 - a0) - 2 * e.
Proof.
  unfold prefix_locate, translate_pair, eqc_of.
  set (s1 := if wref then _ else _). set (s2 := if wq then _ else _).
  match goal with |- (if ?c then _ else _) = _ -> _ => destruct c eqn:Ec; [discriminate|] end.
  apply orb_false_elim in Ec. destruct Ec as [Ek Eov]. apply Z.ltb_ge in Ek.
  intros H; inversion H; subst; clear H.
  assert (Hs1 : length s1 = length ref) by (subst s1; destruct wref; [|destruct wq]; rewrite map_length; reflexivity).
  assert (Hs2 : length s2 = length query) by (subst s2; destruct wq; [|destruct wref]; rewrite map_length; reflexivity).
  repeat split; auto.
  - rewrite (mismatches_firstn _ s1 s2). unfold zslice. cbn [Z.to_nat skipn].
    replace (Z.to_nat (Z.min (zlen ref) (zlen query) - 0)) with (Nat.min (length s1) (length s2)) by (unfold zlen; lia).
    reflexivity.
  - unfold MATCH_SCORE, MISMATCH_SCORE. lia.
Qed.

(** ---- C02 for the comparers: every occurrence within tolerance at the anchored end is reported,
    with exactly its Hamming distance; an error-free one is removed exactly *)
Theorem prefix_locate_complete wref wq max_k ov ref query :
  let '(s1, s2) := translate_pair wref wq ref query in
  let e := mismatches (eqc_of wref wq) s1 s2 in
  e <= max_k -> ov <= Z.min (zlen ref) (zlen query) ->
  prefix_locate wref wq max_k ov ref query =
    Some (0, Z.min (zlen ref) (zlen query), 0, Z.min (zlen ref) (zlen query),
          (Z.min (zlen ref) (zlen query) - e) * MATCH_SCORE + e * MISMATCH_SCORE, e).
Proof.
  unfold translate_pair, prefix_locate, eqc_of. intros He Hov.
  match goal with |- (if ?c then _ else _) = _ => destruct c eqn:Ec end; [|reflexivity].
  apply orb_prop in Ec. destruct Ec as [Ec|Ec]; [apply Z.ltb_lt in Ec | apply Z.ltb_lt in Ec]; lia.
Qed.

Lemma mismatches_nonneg eqc : forall a b, 0 <= mismatches eqc a b.
Proof. induction a as [|x a IH]; intros [|y b]; cbn [mismatches]; try lia. specialize (IH b). destruct (eqc x y); lia. Qed.
