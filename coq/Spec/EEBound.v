(** Accuracy statement for one entry of SCORE_TO_ERROR_RATE:
    entry k is within relative 1e-14 of 10^(-k/10).  (Not one ulp: the table
    in expected_errors.h is not correctly rounded; entry 93 is about 7 ulp off.) *)
From Coq Require Import Reals QArith Qreals.
Open Scope R_scope.

Definition pow10neg (k : Z) : R := exp (- IZR k / 10 * ln 10).

Definition ee_bound (k : Z) (t : Q) : Prop :=
  Rabs (Q2R t - pow10neg k) <= 1 / 100000000000000 * pow10neg k.

Lemma pow10neg_Rpower k : pow10neg k = Rpower 10 (- IZR k / 10).
Proof. reflexivity. Qed.
