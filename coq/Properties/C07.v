(** C07 -- the k-mer prefilter never changes which adapter match is found.
    Property theorems only; every proof is [exact <lemma>].
    Model: Model/Kmer.v (search tables of kmer_heuristic.py, window arithmetic and windowed
    multi-pattern occurrence of KmerFinder.kmers_present, the finder each adapter class builds,
    the ShortReadKmerFinder wrapper) on top of Model/Adapters.v.

    Proved here: the prefilter can only reject (never alter) a result, so the property is
    equivalent to "a reported match implies the read passes the prefilter"; anchored adapters
    without indels bypass the prefilter; the k-mer chunks are a partition of the adapter prefix
    into max_errors+1 consecutive pieces (the pigeonhole premise); short reads always reach
    the aligner of an 'anywhere' adapter.

    The property itself is C07_no_change (Proofs/KmerOverlap.v): for every adapter class, every
    error-rate table with thr 0 = 0, steps of at most one and thr i < i (what int(i * rate) gives for
    every rate below 1; the harness asserts it for each table it uses), ASCII adapter and read, minimum
    overlap >= 1 and an adapter shorter than the no-indels cost 100000: the prefiltered match_to equals
    match_to.  Proof: C01's distance theorem gives an edit script for whatever the aligner reports; its
    placement is one of four shapes (whole adapter / adapter prefix at the read end / adapter suffix at the
    read start / read inside the adapter); for each shape the search table contains a set whose k-mers are
    the E+1 chunks of an adapter piece inside the aligned part with E >= the errors (error_lengths and the
    back/front overlap loops are characterised), so the pigeonhole leaves one chunk verbatim inside the
    window of that set (windows only grow in remove_redundant_kmers); a read inside the adapter is short
    enough for the ShortReadKmerFinder bypass; the aligner's character comparison implies the k-mer
    finder's for all ASCII pairs and flag sets (by computation).

    The shift-and bit machinery below "windowed multi-pattern occurrence" is modelled as well (Model/ShiftAnd.v:
    packing of the k-mers of an entry into 64-bit words, init / found / per-character masks, the shift-or-and
    step with its 64-bit truncation) and proved to compute exactly that occurrence predicate
    (C07_shift_and_correct, C07_packed_search_correct, C07_kmers_present_bit_level at the end of this file).
    Both levels of the model are compared with the compiled finder on the same cases (kmers_present
    correspondence); k-mers longer than 64 characters or empty ones are outside the model (the code refuses
    the former, the heuristic never builds the latter for rates below 1), as is the read past the end of the
    buffer for windows that end behind the read (F7c in DESIGN 7). *)
From Coq Require Import ZArith List Bool.
From CV Require Import Model.Align Model.Adapters Model.Kmer Proofs.AdapterProofs Proofs.KmerProofs Proofs.KmerComplete Proofs.KmerOverlap Model.ShiftAnd Proofs.ShiftAndProofs.
From CV Require Import Generated.Scores.
Import ListNotations.
Open Scope Z_scope.

Theorem C07_prefilter_only_rejects : forall thr ad read,
  match_to_prefiltered thr ad read = match_to thr ad read \/ match_to_prefiltered thr ad read = None.
Proof. exact prefilter_only_rejects. Qed.
Print Assumptions C07_prefilter_only_rejects.

Theorem C07_no_change_partial : forall thr ad read,
  match_to_prefiltered thr ad read = match_to thr ad read <->
  (match_to thr ad read <> None -> prefilter_passes thr ad read = true).
Proof. exact no_change_iff. Qed.
Print Assumptions C07_no_change_partial.

Theorem C07_comparers_unfiltered : forall thr ad read,
  uses_comparer ad = true -> match_to_prefiltered thr ad read = match_to thr ad read.
Proof. exact comparer_no_prefilter. Qed.
Print Assumptions C07_comparers_unfiltered.

Theorem C07_chunks_partition : forall (s : str) (chunks : nat),
  (0 < chunks)%nat -> concat (kmer_chunks s chunks) = s /\ length (kmer_chunks s chunks) = chunks.
Proof. exact (fun s c H => conj (kmer_chunks_partition s c H) (kmer_chunks_count s c H)). Qed.
Print Assumptions C07_chunks_partition.

Theorem C07_anywhere_short_reads : forall thr ad read,
  a_type ad = Anywhere -> zlen read < zlen (a_seq ad) + thr (zlen (a_seq ad)) ->
  prefilter_passes thr ad read = true.
Proof. exact anywhere_short_reads_pass. Qed.
Print Assumptions C07_anywhere_short_reads.

Theorem C07_whole_adapter_never_rejected : forall thr ad read mt,
  (a_type ad = Front \/ a_type ad = RightmostFront \/ a_type ad = Back \/ a_type ad = Anywhere) ->
  wf_adapter ad -> ascii (a_seq ad) -> ascii read ->
  0 <= thr (zlen (a_seq ad)) < zlen (a_seq ad) -> (forall L, thr L <= thr (zlen (a_seq ad))) ->
  match_to thr ad read = Some mt -> astart mt = 0 -> astop mt = zlen (a_seq ad) ->
  prefilter_passes thr ad read = true.
Proof. exact whole_adapter_never_prefiltered. Qed.
Print Assumptions C07_whole_adapter_never_rejected.

(** the property in full: for every adapter class, the prefilter never changes the answer *)
Theorem C07_no_change : forall thr ad read,
  thr 0 = 0 -> (forall i, 0 <= i < zlen (a_seq ad) -> thr i <= thr (i + 1) <= thr i + 1) ->
  (forall i, 1 <= i <= zlen (a_seq ad) -> thr i < i) -> (forall L, thr L <= thr (zlen (a_seq ad))) ->
  ascii (a_seq ad) -> ascii read -> 1 <= a_min_overlap ad -> zlen (a_seq ad) < INDEL_COST_OFF ->
  match_to_prefiltered thr ad read = match_to thr ad read.
Proof. exact prefilter_no_change. Qed.
Print Assumptions C07_no_change.

Theorem C07_reported_match_passes : forall thr ad read mt,
  thr 0 = 0 -> (forall i, 0 <= i < zlen (a_seq ad) -> thr i <= thr (i + 1) <= thr i + 1) ->
  (forall i, 1 <= i <= zlen (a_seq ad) -> thr i < i) -> (forall L, thr L <= thr (zlen (a_seq ad))) ->
  ascii (a_seq ad) -> ascii read -> 1 <= a_min_overlap ad -> zlen (a_seq ad) < INDEL_COST_OFF ->
  match_to thr ad read = Some mt -> prefilter_passes thr ad read = true.
Proof. exact prefilter_complete. Qed.
Print Assumptions C07_reported_match_passes.

(** the premises of C07_whole_adapter_never_rejected are satisfiable: -a ACGTACGTAC (10%) on
    TTACGTTCGTACGG is a whole-adapter match with one mismatch *)
Definition whole_ad : adapter := mkAd Back [65;67;71;84;65;67;71;84;65;67] false false true 3 false.
Example C07_whole_adapter_premises :
  exists mt, match_to (thr_of [0;0;0;0;0;0;0;0;0;0;1]) whole_ad [84;84;65;67;71;84;84;67;71;84;65;67;71;71] = Some mt
    /\ astart mt = 0 /\ astop mt = 10 /\ merrors mt = 1
    /\ prefilter_passes (thr_of [0;0;0;0;0;0;0;0;0;0;1]) whole_ad [84;84;65;67;71;84;84;67;71;84;65;67;71;71] = true.
Proof. eexists. vm_compute. repeat split. Qed.

(** the premises of C07_no_change hold for the table of -e 0.1 and a 10-character adapter, and a
    partial match (adapter prefix ACGTAC at the end of the read) goes through the prefilter *)
Example C07_no_change_premises :
  let thr := thr_of [0;0;0;0;0;0;0;0;0;0;1] in
  thr 0 = 0 /\ (forall i, 0 <= i < zlen (a_seq whole_ad) -> thr i <= thr (i + 1) <= thr i + 1) /\
  (forall i, 1 <= i <= zlen (a_seq whole_ad) -> thr i < i) /\ (forall L, thr L <= thr (zlen (a_seq whole_ad))) /\
  match_to thr whole_ad [84;84;71;71;65;67;71;84;65;67] <> None /\
  match_to_prefiltered thr whole_ad [84;84;71;71;65;67;71;84;65;67] = match_to thr whole_ad [84;84;71;71;65;67;71;84;65;67].
Proof.
  cbv zeta. change (zlen (a_seq whole_ad)) with 10.
  destruct (thr_of_table_ok [0;0;0;0;0;0;0;0;0;0;1] 10 eq_refl eq_refl eq_refl eq_refl eq_refl) as (A & B & C & D).
  split; [exact A|]. split; [exact B|]. split; [exact C|]. split; [exact D|].
  split; [vm_compute; discriminate | vm_compute; reflexivity].
Qed.

(** the two repaired defects, as computations on the model of the repaired code *)
Definition f7a_ad : adapter := mkAd Suffix [71;67;71;71;65;65;84] false false true 7 false.      (* GCGGAAT$ *)
Example C07_F7a_now_passes :
  match_to_prefiltered (thr_of [0;0;0;0;0;1;1;1]) f7a_ad [67;71;84;71;67;71;71;65;84;65;84]
  = match_to (thr_of [0;0;0;0;0;1;1;1]) f7a_ad [67;71;84;71;67;71;71;65;84;65;84]
  /\ match_to (thr_of [0;0;0;0;0;1;1;1]) f7a_ad [67;71;84;71;67;71;71;65;84;65;84] <> None.
Proof. vm_compute. split; [reflexivity | discriminate]. Qed.

(** ---- below the level of Model/Kmer.v: the shift-and search of _kmer_finder.pyx (Model/ShiftAnd.v, Proofs/ShiftAndProofs.v).
    The k-mers of an entry are packed into 64-bit words; the bit-parallel search of one word answers whether one of
    its k-mers occurs in the text -- the very predicate [occurs] that [kmers_present] of the model uses.  So the
    abstraction "some k-mer of the entry occurs in the window" is not an assumption about the C loop but a theorem
    about its model (the model of the loop itself is tied to the code through the kmers_present correspondence). *)
Theorem C07_shift_and_correct : forall (cmatch : Z -> Z -> bool) (t : list Z) (ws : list (list Z)),
  nonempty ws -> total ws <= WORD ->
  shift_and_present cmatch ws t = existsb (fun w => occurs cmatch w t) ws.
Proof. exact shift_and_correct. Qed.
Print Assumptions C07_shift_and_correct.

Theorem C07_packed_search_correct : forall (cmatch : Z -> Z -> bool) (ks : list (list Z)) (t : list Z),
  Forall (fun k => 1 <= zlen k <= WORD) ks ->
  existsb (fun g => shift_and_present cmatch g t) (pack ks) = existsb (fun k => occurs cmatch k t) ks.
Proof. exact packed_search_correct. Qed.
Print Assumptions C07_packed_search_correct.

Theorem C07_kmers_present_bit_level : forall wref wq (entries : list (Z * option Z * list str)) (seq : str),
  Forall (fun e : Z * option Z * list str => Forall (fun k => 1 <= zlen k <= WORD) (snd e)) entries ->
  kmers_present_sa wref wq entries seq = kmers_present wref wq (flat_table entries) seq.
Proof. exact kmers_present_sa_correct. Qed.
Print Assumptions C07_kmers_present_bit_level.

(** non-vacuity: the words ACG and TT in one machine word; TTACG contains ACG, TACCG contains neither; 70 one-letter
    k-mers need two machine words *)
Example C07_shift_and_instance :
  nonempty [[65;67;71]; [84;84]] /\ total [[65;67;71]; [84;84]] <= WORD /\
  shift_and_present eq_ascii [[65;67;71]; [84;84]] [84;65;65;67;71] = true /\
  shift_and_present eq_ascii [[65;67;71]; [84;84]] [84;65;67;67;71] = false /\
  length (pack (repeat [65] 70)) = 2%nat.
Proof.
  split; [repeat constructor; vm_compute; discriminate|]. split; [vm_compute; discriminate|].
  split; [vm_compute; reflexivity|]. split; vm_compute; reflexivity.
Qed.
