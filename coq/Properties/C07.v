(** C07 -- the k-mer prefilter never changes which adapter match is found.
    Property theorems only; every proof is [exact <lemma>].
    Model: Model/Kmer.v (search tables of kmer_heuristic.py, window arithmetic and windowed
    multi-pattern occurrence of KmerFinder.kmers_present, the finder each adapter class builds,
    the ShortReadKmerFinder wrapper) on top of Model/Adapters.v.

    Proved here: the prefilter can only reject (never alter) a result, so the property is
    equivalent to "a reported match implies the read passes the prefilter"; anchored adapters
    without indels bypass the prefilter; the k-mer chunks are a partition of the adapter prefix
    into max_errors+1 consecutive pieces (the pigeonhole premise); short reads always reach
    the aligner of an 'anywhere' adapter.

    Completeness of the search tables is proved for matches that cover the whole adapter
    (C07_whole_adapter_never_rejected: Front, RightmostFront, Back, Anywhere; pigeonhole over the
    edit script obtained from C01's distance theorem, character compatibility of the aligner's and
    the k-mer finder's comparison checked by computation over all ASCII pairs).

    NOT proved here (C07_no_change is partial in this respect): completeness for matches that cover
    only a prefix or suffix of the adapter (the back/front overlap search sets and their windows)
    and for the non-internal classes.  That clause rests on the correspondence (model =
    implementation for tables, kmers_present and prefiltered match_to) and on the
    with/without-prefilter oracle. *)
From Coq Require Import ZArith List Bool.
From CV Require Import Model.Align Model.Adapters Model.Kmer Proofs.AdapterProofs Proofs.KmerProofs Proofs.KmerComplete.
Import ListNotations.
Open Scope Z_scope.

Theorem C07_prefilter_only_rejects : forall thr ad read,
  match_to_prefiltered thr ad read = match_to thr ad read \/ match_to_prefiltered thr ad read = None.
Proof. exact prefilter_only_rejects. Qed.
Print Assumptions C07_prefilter_only_rejects.

Theorem C07_no_change_partial : forall thr ad read,
  match_to_prefiltered thr ad read = match_to thr ad read <->
  (match_to thr ad read <> None -> prefilter_passes thr ad read = true).
Proof. exact no_change_iff. Qed.
Print Assumptions C07_no_change_partial.

Theorem C07_comparers_unfiltered : forall thr ad read,
  uses_comparer ad = true -> match_to_prefiltered thr ad read = match_to thr ad read.
Proof. exact comparer_no_prefilter. Qed.
Print Assumptions C07_comparers_unfiltered.

Theorem C07_chunks_partition : forall (s : str) (chunks : nat),
  (0 < chunks)%nat -> concat (kmer_chunks s chunks) = s /\ length (kmer_chunks s chunks) = chunks.
Proof. exact (fun s c H => conj (kmer_chunks_partition s c H) (kmer_chunks_count s c H)). Qed.
Print Assumptions C07_chunks_partition.

Theorem C07_anywhere_short_reads : forall thr ad read,
  a_type ad = Anywhere -> zlen read < zlen (a_seq ad) + thr (zlen (a_seq ad)) ->
  prefilter_passes thr ad read = true.
Proof. exact anywhere_short_reads_pass. Qed.
Print Assumptions C07_anywhere_short_reads.

Theorem C07_whole_adapter_never_rejected : forall thr ad read mt,
  (a_type ad = Front \/ a_type ad = RightmostFront \/ a_type ad = Back \/ a_type ad = Anywhere) ->
  wf_adapter ad -> ascii (a_seq ad) -> ascii read ->
  0 <= thr (zlen (a_seq ad)) < zlen (a_seq ad) -> (forall L, thr L <= thr (zlen (a_seq ad))) ->
  match_to thr ad read = Some mt -> astart mt = 0 -> astop mt = zlen (a_seq ad) ->
  prefilter_passes thr ad read = true.
Proof. exact whole_adapter_never_prefiltered. Qed.
Print Assumptions C07_whole_adapter_never_rejected.

(** the premises of C07_whole_adapter_never_rejected are satisfiable: -a ACGTACGTAC (10%) on
    TTACGTTCGTACGG is a whole-adapter match with one mismatch *)
Definition whole_ad : adapter := mkAd Back [65;67;71;84;65;67;71;84;65;67] false false true 3 false.
Example C07_whole_adapter_premises :
  exists mt, match_to (thr_of [0;0;0;0;0;0;0;0;0;0;1]) whole_ad [84;84;65;67;71;84;84;67;71;84;65;67;71;71] = Some mt
    /\ astart mt = 0 /\ astop mt = 10 /\ merrors mt = 1
    /\ prefilter_passes (thr_of [0;0;0;0;0;0;0;0;0;0;1]) whole_ad [84;84;65;67;71;84;84;67;71;84;65;67;71;71] = true.
Proof. eexists. vm_compute. repeat split. Qed.

(** the two repaired defects, as computations on the model of the repaired code *)
Definition f7a_ad : adapter := mkAd Suffix [71;67;71;71;65;65;84] false false true 7 false.      (* GCGGAAT$ *)
Example C07_F7a_now_passes :
  match_to_prefiltered (thr_of [0;0;0;0;0;1;1;1]) f7a_ad [67;71;84;71;67;71;71;65;84;65;84]
  = match_to (thr_of [0;0;0;0;0;1;1;1]) f7a_ad [67;71;84;71;67;71;71;65;84;65;84]
  /\ match_to (thr_of [0;0;0;0;0;1;1;1]) f7a_ad [67;71;84;71;67;71;71;65;84;65;84] <> None.
Proof. vm_compute. split; [reflexivity | discriminate]. Qed.
