(** C13 -- quality trimming removes exactly the BWA-defined low-quality ends.
    Property theorems only; every proof is [exact <lemma>].  Model: Model/Qualtrim.v *)
From Coq Require Import ZArith List Bool.
From CV Require Import Model.Qualtrim Proofs.QualtrimProofs.
Import ListNotations.
Open Scope Z_scope.

(** Reading aid.  For a list of deltas [ds] (delta_i = cutoff - (q_i - base)):
    [pre ds j] is the sum of the first j deltas, [alive 0 ds j] says that the
    running sum stayed >= 0 on positions 1..j (the scan had not stopped), and
    [least_argmax ds j] says that j is the *least* position maximising the
    prefix sum among the positions the scan reaches (position 0, sum 0, is
    always among them).  For the 3' end the deltas are taken in reverse, so a
    prefix sum of [rev ds] is a suffix sum of [ds] ([C13_suffix_reading]):
    maximising sum(cutoff - q) = minimising sum(q - cutoff) over the suffix,
    least j = shortest suffix on ties. *)

Theorem C13_scan_is_least_argmax : forall ds,
  exists j, trimcount ds = Z.of_nat j /\ least_argmax ds j.
Proof. exact trimcount_spec. Qed.
Print Assumptions C13_scan_is_least_argmax.

Theorem C13_least_argmax_unique : forall ds j1 j2,
  least_argmax ds j1 -> least_argmax ds j2 -> j1 = j2.
Proof. exact least_argmax_unique. Qed.
Print Assumptions C13_least_argmax_unique.

Theorem C13_suffix_reading : forall ds j, (j <= length ds)%nat ->
  pre (rev ds) j = zsum (skipn (length ds - j) ds).
Proof. exact pre_rev_suffix. Qed.
Print Assumptions C13_suffix_reading.

(** 5' and 3' results and their combination into one interval (empty if they cross) *)
Theorem C13_quality_trim_index : forall quals cf cb base,
  exists j5 j3,
    least_argmax (deltas cf base quals) j5 /\
    least_argmax (rev (deltas cb base quals)) j3 /\
    quality_trim_index quals cf cb base =
      (if zlen quals - Z.of_nat j3 <=? Z.of_nat j5 then (0, 0)
       else (Z.of_nat j5, zlen quals - Z.of_nat j3)).
Proof. exact quality_trim_index_spec. Qed.
Print Assumptions C13_quality_trim_index.

Theorem C13_range : forall quals cf cb base,
  let '(a, b) := quality_trim_index quals cf cb base in 0 <= a <= b /\ b <= zlen quals.
Proof. exact quality_trim_index_range. Qed.
Print Assumptions C13_range.

Theorem C13_all_good : forall quals cf cb base,
  Forall (fun q => cf <= q - base) quals -> Forall (fun q => cb <= q - base) quals ->
  quals <> [] -> quality_trim_index quals cf cb base = (0, zlen quals).
Proof. exact all_good. Qed.
Print Assumptions C13_all_good.

Theorem C13_all_bad : forall quals cf cb base,
  Forall (fun q => q - base < cf) quals -> Forall (fun q => q - base < cb) quals ->
  quality_trim_index quals cf cb base = (0, 0).
Proof. exact all_bad. Qed.
Print Assumptions C13_all_bad.

(** the quality base only shifts the scale *)
Theorem C13_base : forall cutoff base t quals,
  deltas cutoff (base + t) (map (fun q => q + t) quals) = deltas cutoff base quals.
Proof. exact deltas_shift. Qed.
Print Assumptions C13_base.

(** NextSeq mode = the 3' procedure on qualities in which every 'G' has quality cutoff-1 *)
Theorem C13_nextseq : forall bases quals cutoff base,
  length bases = length quals ->
  exists j3,
    least_argmax (rev (deltas cutoff base (nextseq_quals cutoff base bases quals))) j3 /\
    nextseq_trim_index bases quals cutoff base = zlen quals - Z.of_nat j3.
Proof. exact nextseq_trim_index_spec. Qed.
Print Assumptions C13_nextseq.

(** the modifiers slice sequence and qualities alike and report the bases actually removed *)
Theorem C13_count : forall cf cb base seq quals,
  length seq = length quals ->
  let '(s', q', t) := quality_trimmer cf cb base (seq, quals) in
  zlen s' = zlen q' /\ t = zlen seq - zlen s'
  /\ exists a b, 0 <= a <= b /\ b <= zlen seq /\ s' = slice a b seq /\ q' = slice a b quals.
Proof. exact quality_trimmer_count. Qed.
Print Assumptions C13_count.

Theorem C13_count_nextseq : forall cutoff base seq quals,
  length seq = length quals ->
  let '(s', q', t) := nextseq_trimmer cutoff base (seq, quals) in
  zlen s' = zlen q' /\ t = zlen seq - zlen s'
  /\ exists b, 0 <= b <= zlen seq /\ s' = slice 0 b seq /\ q' = slice 0 b quals.
Proof. exact nextseq_trimmer_count. Qed.
Print Assumptions C13_count_nextseq.

(** non-vacuity: a concrete quality string on which both ends are trimmed.
    qualities (base 33)  2 2 30 30 30 10 40 2 2, cutoffs 20/20 -> keep [2,7) *)
Example C13_example :
  quality_trim_index [35;35;63;63;63;43;73;35;35] 20 20 33 = (2, 7).
Proof. vm_compute. reflexivity. Qed.
