(** C19 -- results do not depend on compression, file layout or how a format is requested.
    Property theorems only.  Model: Model/Format.v (the output-format decision of
    files.py: detect_format_from_path / OutputFiles.open_record_writer) and the interleaving of
    Model/Paired.v.  The decision function takes the output name and whether the input has
    qualities: the number of cores and the input's compression are not among its arguments, and the
    compression suffix of the name is proved irrelevant below.  That compressed containers hold the
    same bytes as plain ones is xopen's and the compression libraries' business: exercised by the
    container x layout x cores matrix of the check, not modelled. *)
From Coq Require Import ZArith List Bool.
From CV Require Import Model.Base Model.Parser Model.Format Model.Pipeline Model.Paired Proofs.FormatProofs Proofs.PairedProofs Proofs.QualityBlind.
Import ListNotations.
Open Scope Z_scope.

(** identically for every compression suffix *)
Theorem C19_compression_suffix_irrelevant : forall name comp q,
  In comp compression_suffixes -> uncompressed_name name ->
  output_format (name ++ comp) q = output_format name q.
Proof. exact compression_irrelevant. Qed.
Print Assumptions C19_compression_suffix_irrelevant.

(** the output name decides: a FASTA extension gives FASTA; a FASTQ extension gives FASTQ when there
    are qualities to write (for every stem ending in a character other than '.' and '/') *)
Theorem C19_name_decides : forall stem c q,
  c <> 46 -> c <> 47 ->
  (forall ext, In ext fasta_exts -> output_format (stem ++ [c] ++ ext) q = Fasta) /\
  (forall ext, In ext fastq_exts -> output_format (stem ++ [c] ++ ext) q = if q then Fastq else Fasta).
Proof. exact name_decides_format. Qed.
Print Assumptions C19_name_decides.

(** ... falling back to the input format *)
Theorem C19_fallback : forall name q,
  detect_format name = None -> output_format name q = if q then Fastq else Fasta.
Proof. exact unknown_name_falls_back. Qed.
Print Assumptions C19_fallback.

(** two paired files or one interleaved file: the same pairs *)
Theorem C19_interleaved_layout : forall pairs : list (read * read), deinterleave (interleave pairs) = pairs.
Proof. exact deinterleave_interleave. Qed.
Print Assumptions C19_interleaved_layout.

(** FASTA input gives the same names and sequences as FASTQ input when no quality-based option is
    used (no -q, --nextseq-trim, --max-ee, --max-aer, fractional --max-n): the same fate, the same
    matches, and the output read with its qualities dropped -- for every stage order, filter order,
    option set and read *)
Theorem C19_fasta_equals_fastq : forall order forder o r, no_quality_options o ->
  let out := process_read order forder o r in
  let out' := process_read order forder o (dq r) in
  out_fate out' = out_fate out /\ out_read out' = dq (out_read out) /\ out_matches out' = out_matches out /\
  out_is_rc out' = out_is_rc out /\ out_in_len out' = out_in_len out.
Proof. exact quality_blind. Qed.
Print Assumptions C19_fasta_equals_fastq.

Example C19_nonvacuous :
  uncompressed_name ([111; 117; 116] ++ e_fasta) /\
  output_format ([111; 117; 116] ++ e_fasta ++ s_gz) true = Fasta /\
  output_format ([111; 117; 116] ++ e_fq ++ s_zst) true = Fastq /\
  output_format ([111; 117; 116] ++ e_fq) false = Fasta /\
  output_format [111; 117; 116] true = Fastq.
Proof. exact format_example. Qed.
