(** C08 -- an adapter index changes only speed, never what is found.
    Property theorems only.  Model: Model/Index.v. *)
From Coq Require Import ZArith List Bool.
From CV Require Import Generated.Tables Model.Base Model.Align Model.Adapters Model.Index Proofs.IndexProofs Proofs.IndexLoop Proofs.AlignDist Proofs.IndexDist Proofs.IndexAgree.
From CV Require Import Model.Pipeline.
Import ListNotations.
Open Scope Z_scope.

(** every entry the dictionary holds for a key belongs to an adapter of the set in whose
    neighbourhood the key lies, with that adapter's own (errors, matches) *)
Theorem C08_entry_sound : forall ads s r e m,
  index_lookup ads s = Some (r, e, m) ->
  exists a, nth_error ads r = Some a /\ entry_for a s = Some (e, m).
Proof. exact index_lookup_sound. Qed.
Print Assumptions C08_entry_sound.

(** with indels disabled an entry is exact: same length as the adapter, errors = the Hamming
    distance, within the adapter's tolerance, matches = length - errors *)
Theorem C08_hamming_exact : forall t k s e m,
  ham_entry t k s = Some (e, m) -> length s = length t /\ e = hamming t s /\ e <= k /\ m = zlen t - e.
Proof. exact ham_entry_exact. Qed.
Print Assumptions C08_hamming_exact.

(** an adapter that is strictly closer to the key than every other adapter of the set (in
    particular: the only one in whose neighbourhood the key lies) is the one the dictionary
    holds -- wherever it stands in the list, i.e. independently of the order of the adapters *)
Theorem C08_unique_best_any_order : forall ads s l1 a l2 e m,
  ads = l1 ++ a :: l2 -> entry_for a s = Some (e, m) ->
  (forall b, In b l1 \/ In b l2 -> beaten s m b) ->
  index_lookup ads s = Some (length l1, e, m).
Proof. exact index_lookup_unique_best. Qed.
Print Assumptions C08_unique_best_any_order.

(** the coordinates of every match reported through the index lie inside the read and are anchored
    (5' adapters: the match starts at 0; 3' adapters: it ends at the end of the read) -- also for
    reads shorter than the longest indexed string *)
Theorem C08_coordinates : forall prefix ads sequence res,
  Forall wf_iad ads -> index_match prefix ads sequence = Some res -> coords_ok prefix (zlen sequence) res.
Proof. exact index_match_coords. Qed.
Print Assumptions C08_coordinates.

(** a string within k edits of an adapter differs from it in length by at most k: the keys of the
    dictionary have one of the indexed lengths *)
Theorem C08_key_lengths : forall ads s r e m,
  Forall wf_iad ads -> index_lookup ads s = Some (r, e, m) -> In (zlen s) (index_lengths ads).
Proof. exact index_lookup_len. Qed.
Print Assumptions C08_key_lengths.

(** whenever exactly one adapter occurs at the anchored end of an N-free read -- every anchored affix
    the dictionary knows belongs to adapter r0, and one of them has an indexed length that fits into
    the read -- the index reports a match, it is a match of r0, and its coordinates lie inside the read *)
Theorem C08_unique_reported : forall prefix ads sequence r0 x0 e0 m0,
  Forall wf_iad ads -> Forall (fun x => 1 <= x) (index_lengths ads) ->
  (forall s r e m, is_affix prefix (map (tr upper_table) sequence) s -> lookup_affix ads s = Some (r, e, m) -> r = r0) ->
  In x0 (index_lengths ads) -> x0 <= zlen sequence ->
  has_n (make_affix prefix (map (tr upper_table) sequence) x0) = false ->
  index_lookup ads (make_affix prefix (map (tr upper_table) sequence) x0) = Some (r0, e0, m0) ->
  exists rs re e m, index_match prefix ads sequence = Some (r0, rs, re, e, m) /\ coords_ok prefix (zlen sequence) (r0, rs, re, e, m).
Proof. exact index_reports_unique. Qed.
Print Assumptions C08_unique_reported.

(** the reported error count of an entry is its exact distance and lies within the tolerance: the
    edit distance (unit costs) for adapters with indels, the Hamming distance without *)
Theorem C08_entry_exact : forall ads s r e m,
  Forall wf_iad ads -> index_lookup ads s = Some (r, e, m) ->
  exists a, nth_error ads r = Some a /\ e <= ia_k a /\
    (if a_indels (ia_ad a)
     then ed Z.eqb 1 (map acgt_code (a_seq (ia_ad a))) (map code_of_acgt s) e /\
          (forall x, ed Z.eqb 1 (map acgt_code (a_seq (ia_ad a))) (map code_of_acgt s) x -> e <= x)
     else length s = length (a_seq (ia_ad a)) /\ e = hamming (a_seq (ia_ad a)) s).
Proof. exact index_entry_exact. Qed.
Print Assumptions C08_entry_exact.

(** reads with N (the fallback; after the repair of F8c): what the index reports for an affix that contains N is
    a match of that adapter against the affix which covers the whole affix, with that match's own error count --
    which by C01_errors_exact is the exact distance of the removed affix *)
Theorem C08_n_fallback_covers : forall ads affix r e sc,
  lookup_with_n ads affix = Some (r, e, sc) ->
  exists a mt, nth_error ads r = Some a /\ match_to (thr_of (ia_thr a)) (ia_ad a) affix = Some mt /\
               rstop mt - rstart mt = zlen affix /\ e = merrors mt /\ sc = mscore mt.
Proof. exact lookup_with_n_covers. Qed.
Print Assumptions C08_n_fallback_covers.

(** non-vacuity: two 3' adapters of different lengths with indels, a read that is exactly the
    shorter adapter (the F8a input): the hypotheses hold and the whole read is reported as a match *)
Definition ex_ads : list iad :=
  [mkIad (mkAd Suffix [84;84;65;67;84;65;71;71;71;67] false false true 10 false) [0;0;0;0;0;0;0;0;0;0;1] 1;
   mkIad (mkAd Suffix [65;65;67;84;65;67;71] false false true 7 false) [0;0;0;0;0;0;0;0] 0].
Example C08_nonvacuous :
  Forall wf_iad ex_ads /\ Forall (fun x => 1 <= x) (index_lengths ex_ads) /\
  index_match false ex_ads [65;65;67;84;65;67;71] = Some (1%nat, 0, 7, 0, 7).
Proof.
  split; [repeat constructor; vm_compute; congruence|]. split; [vm_compute; repeat constructor; congruence | vm_compute; reflexivity].
Qed.

(** the last clause, anchored 5' adapters: equal length L, indels disabled, as the parser builds them for the index
    ([prefix_iad]: no wildcards, minimum overlap = L, k = the threshold for L).  For every read of length >= L whose
    first L characters are A/C/G/T (N-free) and are strictly closer (Hamming) to adapter r0, within r0's tolerance,
    than to every other adapter that is within its own tolerance: the index reports adapter r0 with the first L
    characters removed and the Hamming distance as error count, and so does the one-by-one search -- the best of the
    individual comparers by score, then errors, then the order given (best_match, C09_best). *)
Theorem C08_agrees_with_one_by_one : forall L ads s r0 a0,
  1 <= L -> Forall (prefix_iad L) ads -> L <= zlen s ->
  let affix := make_affix true (map (tr upper_table) s) L in
  Forall (fun c => is_acgt c = true) affix ->
  nth_error ads r0 = Some a0 ->
  let h0 := hamming (a_seq (ia_ad a0)) affix in
  h0 <= ia_k a0 ->
  (forall j b, j <> r0 -> nth_error ads j = Some b -> hamming (a_seq (ia_ad b)) affix <= ia_k b -> h0 < hamming (a_seq (ia_ad b)) affix) ->
  index_match true ads s = Some (r0, 0, L, h0, L - h0) /\
  best_match (map to_p ads) s = Some (MSingle r0 (comparer_result L (zlen s) h0)).
Proof. exact index_agrees_with_one_by_one. Qed.
Print Assumptions C08_agrees_with_one_by_one.

(** ... and anchored 3' adapters (the comparer works on the reversed strings): the last L characters *)
Theorem C08_agrees_with_one_by_one_suffix : forall L ads s r0 a0,
  1 <= L -> Forall (suffix_iad L) ads -> L <= zlen s ->
  let affix := make_affix false (map (tr upper_table) s) L in
  Forall (fun c => is_acgt c = true) affix ->
  nth_error ads r0 = Some a0 ->
  let h0 := hamming (a_seq (ia_ad a0)) affix in
  h0 <= ia_k a0 ->
  (forall j b, j <> r0 -> nth_error ads j = Some b -> hamming (a_seq (ia_ad b)) affix <= ia_k b -> h0 < hamming (a_seq (ia_ad b)) affix) ->
  index_match false ads s = Some (r0, zlen s - L, zlen s, h0, L - h0) /\
  best_match (map to_p ads) s = Some (MSingle r0 (suffix_result L (zlen s) h0)).
Proof. exact index_agrees_with_one_by_one_suffix. Qed.
Print Assumptions C08_agrees_with_one_by_one_suffix.
