(** C08 -- an adapter index changes only speed, never what is found.
    Property theorems only.  Model: Model/Index.v. *)
From Coq Require Import ZArith List Bool.
From CV Require Import Model.Base Model.Align Model.Adapters Model.Index Proofs.IndexProofs.
Import ListNotations.
Open Scope Z_scope.

(** every entry the dictionary holds for a key belongs to an adapter of the set in whose
    neighbourhood the key lies, with that adapter's own (errors, matches) *)
Theorem C08_entry_sound : forall ads s r e m,
  index_lookup ads s = Some (r, e, m) ->
  exists a, nth_error ads r = Some a /\ entry_for a s = Some (e, m).
Proof. exact index_lookup_sound. Qed.
Print Assumptions C08_entry_sound.

(** with indels disabled an entry is exact: same length as the adapter, errors = the Hamming
    distance, within the adapter's tolerance, matches = length - errors *)
Theorem C08_hamming_exact : forall t k s e m,
  ham_entry t k s = Some (e, m) -> length s = length t /\ e = hamming t s /\ e <= k /\ m = zlen t - e.
Proof. exact ham_entry_exact. Qed.
Print Assumptions C08_hamming_exact.

(** an adapter that is strictly closer to the key than every other adapter of the set (in
    particular: the only one in whose neighbourhood the key lies) is the one the dictionary
    holds -- wherever it stands in the list, i.e. independently of the order of the adapters *)
Theorem C08_unique_best_any_order : forall ads s l1 a l2 e m,
  ads = l1 ++ a :: l2 -> entry_for a s = Some (e, m) ->
  (forall b, In b l1 \/ In b l2 -> beaten s m b) ->
  index_lookup ads s = Some (length l1, e, m).
Proof. exact index_lookup_unique_best. Qed.
Print Assumptions C08_unique_best_any_order.
