(** C16 -- --revcomp keeps the orientation that matches strictly better.  Property theorems only.
    Model: revcomp_stage = ReverseComplementer.__call__ (after the repair 3fe341c of /repo: the
    reverse orientation is used only if it has a match).  Paired: Properties/C05.v. *)
From Coq Require Import ZArith List Bool.
From CV Require Import Model.Base Model.Pipeline Proofs.ActionProofs.
Import ListNotations.
Open Scope Z_scope.

Theorem C16_choice : forall ads times act suffix r,
  let fwd := match_and_trim ads times act r in
  let rv := match_and_trim ads times act (revcomp_read r) in
  revcomp_stage ads times act suffix r =
    if (match snd rv with [] => false | _ => true end) && (sum_scores (snd fwd) <? sum_scores (snd rv))
    then (mkR (rname (fst rv) ++ suffix) (rseq (fst rv)) (rqual (fst rv)), snd rv, true)
    else (fst fwd, snd fwd, false).
Proof. exact revcomp_choice. Qed.
Print Assumptions C16_choice.

Theorem C16_tie : forall ads times act suffix r,
  sum_scores (snd (match_and_trim ads times act (revcomp_read r))) <= sum_scores (snd (match_and_trim ads times act r)) ->
  revcomp_stage ads times act suffix r =
    (fst (match_and_trim ads times act r), snd (match_and_trim ads times act r), false).
Proof. exact revcomp_tie_keeps_forward. Qed.
Print Assumptions C16_tie.

Theorem C16_shape : forall r, rname (revcomp_read r) = rname r /\ rlen (revcomp_read r) = rlen r /\
  rqual (revcomp_read r) = option_map (@rev Z) (rqual r).
Proof. exact revcomp_read_shape. Qed.
Print Assumptions C16_shape.
