(** C12 -- broken input makes the run fail visibly; it never hangs or loses reads silently.
    Property theorems only.  Model: Model/Runner.v with its fault parameters: [bad i] (processing chunk i
    raises in the worker: a parsing error inside the chunk) and [rfail = Some k] (the reader raises when
    it is about to read chunk k: a truncated compressed stream, mates missing in one paired file). *)
From Coq Require Import ZArith List Bool Arith.
From CV Require Import Model.Runner Proofs.RunnerSafety Proofs.RunnerTermination.
Import ListNotations.
Open Scope nat_scope.

(** for every fault pattern and every schedule: what has been written before (and after) the error
    are the complete blocks of the first [cur] chunks, correctly processed, in input order *)
Theorem C12_written_before_error : forall (A O S : Type) (f : A -> O) (g : A -> S) szero sadd chunks W bad rfail ffail s,
  reachable A O S f g szero sadd chunks W bad rfail ffail s ->
  written s = map f (firstn (cur s) chunks) /\ cur s <= length chunks.
Proof. exact written_is_prefix. Qed.
Print Assumptions C12_written_before_error.

(** no livelock: with or without faults every schedule is finite, bounded by the initial measure *)
Theorem C12_schedules_bounded : forall (A O S : Type) (f : A -> O) (g : A -> S) sadd chunks W bad rfail ffail ls s s',
  Runner.run A O S f g sadd chunks W bad rfail ffail s ls = Some s' ->
  length ls + measure A O S chunks W s' <= measure A O S chunks W s.
Proof. exact schedules_are_bounded. Qed.
Print Assumptions C12_schedules_bounded.
