(** C12 -- broken input makes the run fail visibly; it never hangs or loses reads silently.
    Property theorems only.  Model: Model/Runner.v with its fault parameters: [bad i] (processing chunk i
    raises in the worker: a parsing error inside the chunk) and [rfail = Some k] (the reader raises when
    it is about to read chunk k: a truncated compressed stream, mates missing in one paired file). *)
From Coq Require Import ZArith List Bool Arith.
From CV Require Import Model.Runner Proofs.RunnerSafety Proofs.RunnerTermination Proofs.RunnerLive.
Import ListNotations.
Open Scope nat_scope.

(** for every fault pattern and every schedule: what has been written before (and after) the error
    are the complete blocks of the first [cur] chunks, correctly processed, in input order *)
Theorem C12_written_before_error : forall (A O S : Type) (f : A -> O) (g : A -> S) szero sadd chunks W bad rfail ffail s,
  reachable A O S f g szero sadd chunks W bad rfail ffail s ->
  written s = map f (firstn (cur s) chunks) /\ cur s <= length chunks.
Proof. exact written_is_prefix. Qed.
Print Assumptions C12_written_before_error.

(** no livelock: with or without faults every schedule is finite, bounded by the initial measure *)
Theorem C12_schedules_bounded : forall (A O S : Type) (f : A -> O) (g : A -> S) sadd chunks W bad rfail ffail ls s s',
  Runner.run A O S f g sadd chunks W bad rfail ffail s ls = Some s' ->
  length ls + measure A O S chunks W s' <= measure A O S chunks W s.
Proof. exact schedules_are_bounded. Qed.
Print Assumptions C12_schedules_bounded.

(** status 0 only for well-formed input: a run that finishes without failure has met no fault -- the
    format was detected, the reader never raised, no chunk made a worker raise -- and has handed out
    all chunks *)
Theorem C12_fail_visible : forall (A O S : Type) (f : A -> O) (g : A -> S) szero sadd chunks W bad rfail ffail,
  0 < W -> forall s, reachable A O S f g szero sadd chunks W bad rfail ffail s -> finished_ok s = true ->
  ffail = false /\ next s = length chunks /\ (forall k, rfail = Some k -> length chunks < k) /\ (forall i, i < length chunks -> bad i = false).
Proof. exact finished_means_no_fault. Qed.
Print Assumptions C12_fail_visible.

(** ... and then the output contains every record of it *)
Theorem C12_complete_when_ok : forall (A O S : Type) (f : A -> O) (g : A -> S) szero sadd chunks W bad rfail ffail s,
  0 < W -> reachable A O S f g szero sadd chunks W bad rfail ffail s -> finished_ok s = true ->
  written s = map f chunks.
Proof. exact finished_complete. Qed.
Print Assumptions C12_complete_when_ok.

(** never hangs: with every fault pattern, a reachable state that is not terminal (neither finished
    nor failed) has an enabled step; together with C12_schedules_bounded every maximal schedule ends
    in a terminal state *)
Theorem C12_no_deadlock : forall (A O S : Type) (f : A -> O) (g : A -> S) szero sadd chunks W bad rfail ffail s,
  0 < W -> reachable A O S f g szero sadd chunks W bad rfail ffail s -> terminal s = false ->
  exists l s', step A O S f g sadd chunks W bad rfail ffail s l = Some s'.
Proof. exact no_deadlock. Qed.
Print Assumptions C12_no_deadlock.
