(** C06 -- multi-core runs give the single-core result under every schedule.
    Property theorems only.  Model: Model/Runner.v (reader, W workers, collecting main process with
    the ordered chunk writer, as a labelled transition system whose schedules are arbitrary label
    sequences) instantiated with the pipeline model (Proofs/RunnerPipeline.v). *)
From Coq Require Import ZArith List Bool Arith.
From CV Require Import Model.Base Model.Pipeline Model.Runner Proofs.PipelineProofs Proofs.TallyProofs
  Proofs.RunnerSafety Proofs.RunnerTermination Proofs.RunnerLive Proofs.RunnerStats Proofs.RunnerPipeline.
Import ListNotations.
Open Scope nat_scope.

(** any number of workers, any chunking, any schedule (and any fault pattern): what the main process
    has written is the processed output of the first [cur] chunks in input order -- never reordered,
    duplicated or with a hole *)
Theorem C06_written_is_prefix : forall (A O S : Type) (f : A -> O) (g : A -> S) szero sadd chunks W bad rfail ffail s,
  reachable A O S f g szero sadd chunks W bad rfail ffail s ->
  written s = map f (firstn (cur s) chunks) /\ cur s <= length chunks.
Proof. exact written_is_prefix. Qed.
Print Assumptions C06_written_is_prefix.

(** ... and with the pipeline as the worker function: the records written to every destination are
    what one core writes there for the reads of those chunks *)
Theorem C06_multicore_prefix : forall order forder o d chunks W bad rfail ffail s,
  reachable (list read) (list read) Z (block order forder o d) (cstat order forder o) 0%Z Z.add chunks W bad rfail ffail s ->
  concat (written s) = records_of d (rep_files (Pipeline.run order forder o (concat (firstn (cur s) chunks)))) /\
  cur s <= length chunks.
Proof. exact multicore_written_prefix. Qed.
Print Assumptions C06_multicore_prefix.

(** the chunk size is irrelevant: files and counts of a chunked input are the concatenation / sum *)
Theorem C06_files_chunked : forall order forder o (chunks : list (list read)) d,
  records_of d (rep_files (Pipeline.run order forder o (concat chunks))) =
  concat (map (fun c => records_of d (rep_files (Pipeline.run order forder o c))) chunks).
Proof. exact files_chunked. Qed.
Print Assumptions C06_files_chunked.

Theorem C06_counts_chunked : forall order forder o (chunks : list (list read)),
  rep_n (Pipeline.run order forder o (concat chunks)) = zsum_map (fun c => rep_n (Pipeline.run order forder o c)) chunks.
Proof. exact counts_chunked. Qed.
Print Assumptions C06_counts_chunked.

Theorem C06_report_chunked : forall order forder o reads1 reads2,
  Pipeline.run order forder o (reads1 ++ reads2) =
  fold_report (outcomes order forder o reads2) (Pipeline.run order forder o reads1).
Proof. exact run_chunked. Qed.
Print Assumptions C06_report_chunked.

(** statistics merge by addition: the tally of a concatenation is the sum of the tallies *)
Theorem C06_tally_merge : forall evs1 evs2 k,
  lookup_key k (tally (evs1 ++ evs2)) = (lookup_key k (tally evs1) + lookup_key k (tally evs2))%Z.
Proof. exact tally_app. Qed.
Print Assumptions C06_tally_merge.

(** every schedule is finite: the protocol cannot exchange messages forever *)
Theorem C06_schedules_bounded : forall (A O S : Type) (f : A -> O) (g : A -> S) sadd chunks W bad rfail ffail ls s s',
  Runner.run A O S f g sadd chunks W bad rfail ffail s ls = Some s' ->
  length ls + measure A O S chunks W s' <= measure A O S chunks W s.
Proof. exact schedules_are_bounded. Qed.
Print Assumptions C06_schedules_bounded.

(** the main theorem: for every number W > 0 of workers, every chunking, every schedule (and every
    fault pattern: a run that finishes has met none) -- a finished run has written the blocks of ALL
    chunks in input order, and, statistics forming a commutative monoid, has merged exactly the
    statistics of all chunks: the one-core total *)
Theorem C06_final : forall (A O S : Type) (f : A -> O) (g : A -> S) szero sadd chunks W bad rfail ffail s,
  0 < W ->
  (forall a b c, sadd a (sadd b c) = sadd (sadd a b) c) -> (forall a b, sadd a b = sadd b a) -> (forall a, sadd szero a = a) ->
  reachable A O S f g szero sadd chunks W bad rfail ffail s -> finished_ok s = true ->
  written s = map f chunks /\ macc s = total_stats A S g szero sadd chunks.
Proof. exact finished_stats_total. Qed.
Print Assumptions C06_final.

(** ... with the pipeline as the worker function: every destination holds what one core writes
    there for the whole input, and the merged record count is the one-core count *)
Theorem C06_multicore_final : forall order forder o d chunks W bad rfail ffail s,
  0 < W ->
  reachable (list read) (list read) Z (block order forder o d) (cstat order forder o) 0%Z Z.add chunks W bad rfail ffail s ->
  finished_ok s = true ->
  concat (written s) = records_of d (rep_files (Pipeline.run order forder o (concat chunks))) /\
  macc s = rep_n (Pipeline.run order forder o (concat chunks)).
Proof. exact multicore_final. Qed.
Print Assumptions C06_multicore_final.

(** no deadlock: a reachable state that is not terminal always has an enabled step *)
Theorem C06_no_deadlock : forall (A O S : Type) (f : A -> O) (g : A -> S) szero sadd chunks W bad rfail ffail s,
  0 < W -> reachable A O S f g szero sadd chunks W bad rfail ffail s -> terminal s = false ->
  exists l s', step A O S f g sadd chunks W bad rfail ffail s l = Some s'.
Proof. exact no_deadlock. Qed.
Print Assumptions C06_no_deadlock.

(** ... and for paired-end data (a chunk is a list of pairs, the worker function is the paired
    pipeline model): every pair file holds what one core writes there, pair count = one-core count *)
Theorem C06_multicore_final_paired : forall order forder p d chunks W bad rfail ffail s,
  0 < W ->
  reachable (list (read * read)) (list (read * read)) Z (pblock order forder p d) (pcstat order forder p) 0%Z Z.add chunks W bad rfail ffail s ->
  finished_ok s = true ->
  concat (written s) = PairedProofs.precords_of d (Paired.pr_files (Paired.prun order forder p (concat chunks))) /\
  macc s = Paired.pr_n (Paired.prun order forder p (concat chunks)).
Proof. exact multicore_final_paired. Qed.
Print Assumptions C06_multicore_final_paired.
