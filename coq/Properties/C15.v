(** C15 -- demultiplexing puts every read into the file of its adapter.  Property theorems only.
    Destinations: 10 + i = file of adapter i, 9 = the 'unknown' file, 3 = --untrimmed-output.
    Combinatorial ({name1}/{name2}) demultiplexing: Properties/C05.v. *)
From Coq Require Import ZArith List Bool.
From CV Require Import Generated.Orders Model.Base Model.Pipeline Model.PipelineRun Proofs.PipelineProofs Proofs.OrderProofs.
Import ListNotations.
Open Scope Z_scope.

Theorem C15_route : forall o i,
  o_demux o = true ->
  sink o i = match last_match (i_matches i) with
             | Some m => Written (10 + Z.of_nat (m_idx m))
             | None => if o_discard_untrimmed o then Filtered 8 None
                       else if o_untrimmed_output o then Written 3 else Written 9
             end.
Proof. exact demux_routing. Qed.
Print Assumptions C15_route.

(** without trimmed/untrimmed options: the same records as the same command without {name},
    each written exactly when it is written there *)
Theorem C15_same_records : forall o r,
  o_demux o = true -> o_discard_trimmed o = false -> o_discard_untrimmed o = false -> o_untrimmed_output o = false ->
  let a := process_cli o r in
  let b := process_cli (undemux o) r in
  out_read a = out_read b /\ (is_written a = is_written b) /\ (is_written b = true -> out_file b = Some 0).
Proof. exact demux_same_records. Qed.
Print Assumptions C15_same_records.

Theorem C15_files_in_order : forall order forder o reads d,
  records_of d (rep_files (run order forder o reads)) =
  map out_read (filter (fun out => match out_file out with Some d' => d' =? d | None => false end)
                       (outcomes order forder o reads)).
Proof. exact files_are_subsequences. Qed.
Print Assumptions C15_files_in_order.
