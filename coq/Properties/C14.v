(** C14 -- poly-A, N-end trimming, N counts and expected errors match their definitions.
    Property theorems only; every proof is [exact <lemma>].
    Models: Model/Qualtrim.v (poly_a_trim_index, trim_n, n_count), Model/ExpErr.v,
    Model/ExpErrInst.v; table from Generated/EETable.v (regenerated from expected_errors.h). *)
From Coq Require Import ZArith List Bool QArith Reals.
From CV Require Import Model.Qualtrim Model.ExpErr Model.ExpErrInst Spec.EEBound
  Generated.EETable Generated.EEAccAll
  Proofs.PolyAProofs Proofs.NTrimProofs Proofs.ExpErrProofs.
Import ListNotations.
Open Scope Z_scope.

(** poly-A.  [psc t cs j] = score (+1 per base equal to t, -2 per other base) of the first j
    characters, [ok20 t cs j] = at most 20 % other bases among them, [poly_best t cs j] =
    j is the least admissible position with maximal score (0, "trim nothing", is admissible). *)
Theorem C14_polya_scan : forall t cs,
  exists j, pscan t cs 0 0 0 0 0 = Z.of_nat j /\ poly_best t cs j.
Proof. exact pscan_best. Qed.
Print Assumptions C14_polya_scan.

Theorem C14_polya_unique : forall t cs j1 j2, poly_best t cs j1 -> poly_best t cs j2 -> j1 = j2.
Proof. exact poly_best_unique. Qed.
Print Assumptions C14_polya_unique.

(** poly-A tail: scan from the 3' end for 'A' (65); tails shorter than 3 are ignored *)
Theorem C14_polya : forall s,
  exists j, poly_best 65 (rev s) j /\
    poly_a_trim_index s false = zlen s - (if (Z.of_nat j <? 3) then 0 else Z.of_nat j).
Proof. exact poly_a_spec. Qed.
Print Assumptions C14_polya.

(** poly-T head (R2): scan from the 5' end for 'T' (84) *)
Theorem C14_polyt : forall s,
  exists j, poly_best 84 s j /\
    poly_a_trim_index s true = (if (Z.of_nat j <? 3) then 0 else Z.of_nat j).
Proof. exact poly_t_spec. Qed.
Print Assumptions C14_polyt.

Theorem C14_poly_range : forall s b, 0 <= poly_a_trim_index s b <= zlen s.
Proof. exact poly_a_range. Qed.
Print Assumptions C14_poly_range.

(** --trim-n: what is removed is an all-N prefix and an all-N suffix, and what is left neither
    starts nor ends with N (so the runs removed are the maximal ones) *)
Theorem C14_trimn : forall s,
  exists a b, s = a ++ trim_n s ++ b /\ allN a /\ allN b
    /\ (match trim_n s with c :: _ => c <> 78 | [] => True end)
    /\ (match rev (trim_n s) with c :: _ => c <> 78 | [] => True end).
Proof. exact trim_n_spec. Qed.
Print Assumptions C14_trimn.

Theorem C14_trimn_idempotent : forall s, trim_n (trim_n s) = trim_n s.
Proof. exact trim_n_idem. Qed.
Print Assumptions C14_trimn_idempotent.

Theorem C14_trimn_allN : forall s, allN s -> trim_n s = [].
Proof. exact trim_n_allN. Qed.
Print Assumptions C14_trimn_allN.

(** N count of --max-n: 'N' (78) and 'n' (110) *)
Theorem C14_ncount : forall c s,
  n_count [] = 0 /\ n_count (c :: s) = (if (c =? 78) || (c =? 110) then 1 else 0) + n_count s.
Proof. exact (fun c s => conj eq_refl (n_count_cons c s)). Qed.
Print Assumptions C14_ncount.

(** expected errors: the 4x-unrolled four-accumulator loop equals the plain sum of table
    values (exact arithmetic, any table, any length), and fails exactly on an invalid byte *)
Theorem C14_ee_unrolled : forall tbl base quals,
  expected_errors Z 0 Z.add tbl base quals =
    if existsb (bad base) quals then None else Some (plain_sum Z 0 Z.add tbl base quals).
Proof. exact expected_errors_is_plain_sum. Qed.
Print Assumptions C14_ee_unrolled.

Theorem C14_ee_invalid : forall base b, 0 <= base <= 126 -> 0 <= b < 256 ->
  bad base b = true <-> (b < base \/ 126 < b).
Proof. exact bad_iff. Qed.
Print Assumptions C14_ee_invalid.

Theorem C14_ee_index : forall base b, 0 <= base <= 126 -> base <= b <= 126 -> phred base b = b - base.
Proof. exact phred_ok. Qed.
Print Assumptions C14_ee_index.

(** the table of expected_errors.h: entry k is 10^(-k/10) within relative 1e-14 (interval
    arithmetic, one lemma per entry in Generated/EEAcc*.v) *)
Theorem C14_ee_table : Forall2 ee_bound ee_indices ee_table_q.
Proof. exact ee_acc_all. Qed.
Print Assumptions C14_ee_table.

Theorem C14_ee_table_scaled : forallb2 same_entry ee_table_z ee_table_q = true.
Proof. exact ee_table_z_is_q. Qed.
Print Assumptions C14_ee_table_scaled.

(** non-vacuity *)
Example C14_example_polya :
  poly_a_trim_index [67;71;84;65;65;65;65;67;65;65;65;65;65] false = 3.
Proof. vm_compute. reflexivity. Qed.
Example C14_example_trimn : trim_n [78;78;65;78;67;78] = [65;78;67].
Proof. vm_compute. reflexivity. Qed.
