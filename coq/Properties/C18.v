(** C18 -- adapter specifications mean what the documented notation says.
    Property theorems only.  Model: Model/Parser.v (parser.py + SingleAdapter.__init__ normalisation).

    Proved: the (option, restriction, rightmost) -> adapter class table is the documented one; the
    notation ^CORE, X..XCORE, CORE$, COREX..X, CORE yields the documented restriction and the bare
    core, two restrictions are rejected; parameter precedence adapter-level over file-level over
    global for every parameter; the error parameter (>= 1 is divided by the number of non-N
    bases) and every other field of the adapter description; which parts of a linked adapter
    are required (-a: the anchored ones, -g: both, overridden by required/optional).
    NOT proved (C18 partial): a full round trip parse(show(ast)) = meaning(ast) over the whole
    grammar (names, brace expansion, parameter spellings, file: variants); that is covered by the
    correspondence of the model with make_adapters_from_specifications on strings printed from
    random ASTs and by the documentation-table oracle. *)
From Coq Require Import ZArith QArith List Bool.
From CV Require Import Model.Base Model.Adapters Model.Parser Proofs.ParserProofs.
Import ListNotations.
Open Scope Z_scope.

Theorem C18_class_table :
  class_of TBack RNone false = Back /\ class_of TBack RAnchored false = Suffix /\ class_of TBack RNonInternal false = NonInternalBack /\
  class_of TFront RNone false = Front /\ class_of TFront RAnchored false = Prefix /\ class_of TFront RNonInternal false = NonInternalFront /\
  class_of TFront RNone true = RightmostFront /\ class_of TAnywhere RNone false = Anywhere.
Proof. exact class_table. Qed.
Print Assumptions C18_class_table.

Theorem C18_notation_plain : forall core, plain_ends core -> parse_restrictions core = Ok (RNone, RNone, core).
Proof. exact restrictions_core. Qed.
Print Assumptions C18_notation_plain.

Theorem C18_notation_caret : forall core, plain_ends core -> parse_restrictions (94 :: core) = Ok (RAnchored, RNone, core).
Proof. exact restrictions_anchored_front. Qed.
Print Assumptions C18_notation_caret.

Theorem C18_notation_leading_x : forall x xs core, all_xs (x :: xs) = true -> plain_ends core -> core <> [] ->
  parse_restrictions ((x :: xs) ++ core) = Ok (RNonInternal, RNone, core).
Proof. exact restrictions_noninternal_front. Qed.
Print Assumptions C18_notation_leading_x.

Theorem C18_notation_dollar : forall core, plain_ends core -> core <> [] ->
  parse_restrictions (core ++ [36]) = Ok (RNone, RAnchored, core).
Proof. exact restrictions_anchored_back. Qed.
Print Assumptions C18_notation_dollar.

Theorem C18_notation_trailing_x : forall x xs core, all_xs (x :: xs) = true -> plain_ends core -> core <> [] ->
  parse_restrictions (core ++ rev (x :: xs)) = Ok (RNone, RNonInternal, core).
Proof. exact restrictions_noninternal_back. Qed.
Print Assumptions C18_notation_trailing_x.

Theorem C18_two_restrictions_rejected : forall core, plain_ends core -> core <> [] ->
  parse_restrictions (94 :: core ++ [36]) = Err.
Proof. exact restrictions_both_rejected. Qed.
Print Assumptions C18_two_restrictions_rejected.

Theorem C18_precedence : forall k glob file adapter,
  NoDup (map fst file) -> NoDup (map fst adapter) ->
  get_key k (update (update glob file) adapter) =
    match get_key k adapter with
    | Some v => Some v
    | None => match get_key k file with Some v => Some v | None => get_key k glob end
    end.
Proof. exact precedence. Qed.
Print Assumptions C18_precedence.

Theorem C18_description : forall cls seq p rw aw force name d,
  make_single cls seq p rw aw force name = Ok d ->
  let sequence := normalize_seq seq in
  let me := match get_key KMaxErrors p with Some v => value_q v | None => 0%Q end in
  let nn := count_char 78 sequence in
  d_sequence d = sequence /\
  d_rate d = (if Qle_bool 1 me && negb (nn =? zlen sequence) then Qdiv me (inject_Z (zlen sequence - nn)) else me) /\
  d_min_overlap d = (match cls with
                     | Prefix | Suffix => zlen seq
                     | _ => Z.min (match get_key KMinOverlap p with Some (VInt n) => n | _ => 3 end) (zlen sequence)
                     end) /\
  d_indels d = (match get_key KIndels p with Some v => truthy v | None => true end) /\
  d_adapter_wildcards d = (aw && negb (all_in acgt_chars sequence)) /\
  d_read_wildcards d = rw /\ d_force_anywhere d = force /\ d_name d = name /\ d_class d = cls.
Proof. exact rate_conversion. Qed.
Print Assumptions C18_description.

Theorem C18_linked_required : forall spec1 spec2 name t base rw aw nm fd bd fr br f b,
  make_linked spec1 spec2 name t base rw aw = Ok (OLinked nm fd bd fr br) ->
  parse_spec spec1 TFront = Ok f -> parse_spec spec2 TBack = Ok b ->
  let isr r := match r with RNone => false | _ => true end in
  fr = (match get_key KRequired (update base (sp_params f)) with
        | Some v => truthy v
        | None => match t with TFront => true | _ => isr (sp_restriction f) end
        end) /\
  br = (match get_key KRequired (update base (sp_params b)) with
        | Some v => truthy v
        | None => match t with TFront => true | _ => isr (sp_restriction b) end
        end) /\
  t <> TAnywhere.
Proof. exact linked_required. Qed.
Print Assumptions C18_linked_required.

(** worked examples through the whole parser: -a "name=ACGTACGT;e=2;o=4" and -g "^AC{3}G;noindels" *)
Definition ex_g : globals := mkG (VDec 1 1) 3 false true true.
Example C18_example_back :
  make_from_spec [110;97;109;101;61;65;67;71;84;65;67;71;84;59;101;61;50;59;111;61;52] TBack ex_g []
  = Ok [OSingle (mkD Back [65;67;71;84;65;67;71;84] (Qdiv (inject_Z 2) (inject_Z 8)) 4 false false true false (Some [110;97;109;101]))].
Proof. vm_compute. reflexivity. Qed.
Example C18_example_prefix :
  make_from_spec [94;65;67;123;51;125;71;59;110;111;105;110;100;101;108;115] TFront ex_g []
  = Ok [OSingle (mkD Prefix [65;67;67;67;71] (Qmake 1 10) 5 false false false false None)].
Proof. vm_compute. reflexivity. Qed.
