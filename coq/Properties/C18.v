(** C18 -- adapter specifications mean what the documented notation says.
    Property theorems only.  Model: Model/Parser.v (parser.py + SingleAdapter.__init__ normalisation).

    Proved: the (option, restriction, rightmost) -> adapter class table is the documented one; the
    notation ^CORE, X..XCORE, CORE$, COREX..X, CORE yields the documented restriction and the bare
    core, two restrictions are rejected; parameter precedence adapter-level over file-level over
    global for every parameter; the error parameter (>= 1 is divided by the number of non-N
    bases) and every other field of the adapter description; which parts of a linked adapter
    are required (-a: the anchored ones, -g: both, overridden by required/optional).
    The round trip over the documented grammar is a theorem as well (Proofs/ParserRoundTrip.v, Proofs/ParserBraces.v):
    the printed form of an abstract specification -- optional name=, one restriction marker (^, leading Xs, $,
    trailing Xs), a core made of segments "text" or "text{n}", and any list of search parameters in any of their
    documented spellings with flag, integer or decimal values, joined by ';' -- is parsed into exactly the parts it was
    printed from (C18_round_trip, C18_round_trip_braces, C18_parameters_round_trip, C18_brace_expansion); a printed
    specification without "..." builds the single adapter of those parts and A...B the linked adapter of the two
    (C18_adapter_from_printed, C18_linked_notation); file:, ^file: and file$: turn every record into a specification
    with the anchor the prefix says, under the file-level parameters (C18_file, C18_file_anchored5, C18_file_anchored3).
    Blanks around the name, the sequence part, every parameter field, its key and its value are covered too
    (C18_parameters_blanks, C18_round_trip_blanks; Proofs/ParserBlanks.v), and the option letter x marker table is read off
    the printed string (C18_printed_table).
    What is still outside the theorems (C18 partial): numerals other than digits and digits.digits, the text of error messages and the exit
    status (checked against the implementation by the documentation-table oracle), and reading the FASTA file itself
    (the records are an input of the model). *)
From Coq Require Import ZArith QArith List Bool.
From CV Require Import Model.Base Model.Adapters Model.Parser Proofs.ParserProofs Proofs.ParserRoundTrip Proofs.ParserBraces Proofs.ParserBlanks.
Import ListNotations.
Open Scope Z_scope.

Theorem C18_class_table :
  class_of TBack RNone false = Back /\ class_of TBack RAnchored false = Suffix /\ class_of TBack RNonInternal false = NonInternalBack /\
  class_of TFront RNone false = Front /\ class_of TFront RAnchored false = Prefix /\ class_of TFront RNonInternal false = NonInternalFront /\
  class_of TFront RNone true = RightmostFront /\ class_of TAnywhere RNone false = Anywhere.
Proof. exact class_table. Qed.
Print Assumptions C18_class_table.

Theorem C18_notation_plain : forall core, plain_ends core -> parse_restrictions core = Ok (RNone, RNone, core).
Proof. exact restrictions_core. Qed.
Print Assumptions C18_notation_plain.

Theorem C18_notation_caret : forall core, plain_ends core -> parse_restrictions (94 :: core) = Ok (RAnchored, RNone, core).
Proof. exact restrictions_anchored_front. Qed.
Print Assumptions C18_notation_caret.

Theorem C18_notation_leading_x : forall x xs core, all_xs (x :: xs) = true -> plain_ends core -> core <> [] ->
  parse_restrictions ((x :: xs) ++ core) = Ok (RNonInternal, RNone, core).
Proof. exact restrictions_noninternal_front. Qed.
Print Assumptions C18_notation_leading_x.

Theorem C18_notation_dollar : forall core, plain_ends core -> core <> [] ->
  parse_restrictions (core ++ [36]) = Ok (RNone, RAnchored, core).
Proof. exact restrictions_anchored_back. Qed.
Print Assumptions C18_notation_dollar.

Theorem C18_notation_trailing_x : forall x xs core, all_xs (x :: xs) = true -> plain_ends core -> core <> [] ->
  parse_restrictions (core ++ rev (x :: xs)) = Ok (RNone, RNonInternal, core).
Proof. exact restrictions_noninternal_back. Qed.
Print Assumptions C18_notation_trailing_x.

Theorem C18_two_restrictions_rejected : forall core, plain_ends core -> core <> [] ->
  parse_restrictions (94 :: core ++ [36]) = Err.
Proof. exact restrictions_both_rejected. Qed.
Print Assumptions C18_two_restrictions_rejected.

Theorem C18_precedence : forall k glob file adapter,
  NoDup (map fst file) -> NoDup (map fst adapter) ->
  get_key k (update (update glob file) adapter) =
    match get_key k adapter with
    | Some v => Some v
    | None => match get_key k file with Some v => Some v | None => get_key k glob end
    end.
Proof. exact precedence. Qed.
Print Assumptions C18_precedence.

Theorem C18_description : forall cls seq p rw aw force name d,
  make_single cls seq p rw aw force name = Ok d ->
  let sequence := normalize_seq seq in
  let me := match get_key KMaxErrors p with Some v => value_q v | None => 0%Q end in
  let nn := count_char 78 sequence in
  d_sequence d = sequence /\
  d_rate d = (if Qle_bool 1 me && negb (nn =? zlen sequence) then Qdiv me (inject_Z (zlen sequence - nn)) else me) /\
  d_min_overlap d = (match cls with
                     | Prefix | Suffix => zlen seq
                     | _ => Z.min (match get_key KMinOverlap p with Some (VInt n) => n | _ => 3 end) (zlen sequence)
                     end) /\
  d_indels d = (match get_key KIndels p with Some v => truthy v | None => true end) /\
  d_adapter_wildcards d = (aw && negb (all_in acgt_chars sequence)) /\
  d_read_wildcards d = rw /\ d_force_anywhere d = force /\ d_name d = name /\ d_class d = cls.
Proof. exact rate_conversion. Qed.
Print Assumptions C18_description.

Theorem C18_linked_required : forall spec1 spec2 name t base rw aw nm fd bd fr br f b,
  make_linked spec1 spec2 name t base rw aw = Ok (OLinked nm fd bd fr br) ->
  parse_spec spec1 TFront = Ok f -> parse_spec spec2 TBack = Ok b ->
  let isr r := match r with RNone => false | _ => true end in
  fr = (match get_key KRequired (update base (sp_params f)) with
        | Some v => truthy v
        | None => match t with TFront => true | _ => isr (sp_restriction f) end
        end) /\
  br = (match get_key KRequired (update base (sp_params b)) with
        | Some v => truthy v
        | None => match t with TFront => true | _ => isr (sp_restriction b) end
        end) /\
  t <> TAnywhere.
Proof. exact linked_required. Qed.
Print Assumptions C18_linked_required.

(** worked examples through the whole parser: -a "name=ACGTACGT;e=2;o=4" and -g "^AC{3}G;noindels" *)
Definition ex_g : globals := mkG (VDec 1 1) 3 false true true.
Example C18_example_back :
  make_from_spec [110;97;109;101;61;65;67;71;84;65;67;71;84;59;101;61;50;59;111;61;52] TBack ex_g []
  = Ok [OSingle (mkD Back [65;67;71;84;65;67;71;84] (Qdiv (inject_Z 2) (inject_Z 8)) 4 false false true false (Some [110;97;109;101]))].
Proof. vm_compute. reflexivity. Qed.
Example C18_example_prefix :
  make_from_spec [94;65;67;123;51;125;71;59;110;111;105;110;100;101;108;115] TFront ex_g []
  = Ok [OSingle (mkD Prefix [65;67;67;67;71] (Qmake 1 10) 5 false false false false None)].
Proof. vm_compute. reflexivity. Qed.

(** ---- the round trip: printed notation -> parsed parts *)
Theorem C18_parameters_round_trip : forall fs, Forall wf_field fs -> NoDup (map f_key fs) ->
  parse_search_parameters (pspec_of fs) = post_params (map meaning fs).
Proof. exact parse_search_parameters_printed. Qed.
Print Assumptions C18_parameters_round_trip.

Theorem C18_round_trip : forall a t, wf_sast a -> parse_spec (show_sast a) t = spec_meaning a t.
Proof. exact parse_spec_printed. Qed.
Print Assumptions C18_round_trip.

Theorem C18_brace_expansion : forall pre l post, nobrace pre -> nobrace post -> Forall wf_seg l ->
  expand_braces (pre ++ show_segs l ++ post) = Ok (pre ++ segs_meaning l ++ post).
Proof. exact expand_braces_segs. Qed.
Print Assumptions C18_brace_expansion.

Theorem C18_round_trip_braces : forall a t, wf_bast a ->
  parse_spec (show_bast a) t =
  match post_params (map meaning (b_fields a)) with
  | Err => Err
  | Ok ps => finish (b_name a) (mark_front (b_mark a)) (mark_back (b_mark a)) (segs_meaning (b_segs a)) ps t
  end.
Proof. exact parse_spec_printed_braces. Qed.
Print Assumptions C18_round_trip_braces.

Theorem C18_adapter_from_printed : forall a t base rw aw nm, wf_sast a -> no_sub3 (show_sast a) = true ->
  make_adapter (show_sast a) t base rw aw nm =
  match spec_meaning a t with
  | Err => Err
  | Ok sp => match build_single sp nm base rw aw with Ok d => Ok (OSingle d) | Err => Err end
  end.
Proof. exact make_adapter_printed. Qed.
Print Assumptions C18_adapter_from_printed.

Theorem C18_linked_notation : forall a1 a2 t base rw aw nm, wf_sast a1 -> wf_sast a2 ->
  no_sub3 (show_sast a1 ++ [46; 46]) = true ->
  make_adapter (show_sast a1 ++ dots ++ show_sast a2) t base rw aw nm =
    make_linked (show_sast a1) (show_sast a2) nm t base rw aw
  /\ parse_spec (show_sast a1) TFront = spec_meaning a1 TFront
  /\ parse_spec (show_sast a2) TBack = spec_meaning a2 TBack.
Proof. exact make_adapter_linked_printed. Qed.
Print Assumptions C18_linked_notation.

Theorem C18_file : forall path fs t g records, ~ In 59 path -> Forall wf_field fs -> NoDup (map f_key fs) ->
  make_from_spec (file_prefix ++ file_tail path fs) t g records = from_records [] [] fs t g records.
Proof. exact file_plain. Qed.
Print Assumptions C18_file.

Theorem C18_file_anchored5 : forall path fs t g records, ~ In 59 path -> Forall wf_field fs -> NoDup (map f_key fs) ->
  make_from_spec (94 :: file_prefix ++ file_tail path fs) t g records = from_records [94] [] fs t g records.
Proof. exact file_anchored5. Qed.
Print Assumptions C18_file_anchored5.

Theorem C18_file_anchored3 : forall path fs t g records, ~ In 59 path -> Forall wf_field fs -> NoDup (map f_key fs) ->
  make_from_spec ([102; 105; 108; 101; 36; 58] ++ file_tail path fs) t g records = from_records [] [36] fs t g records.
Proof. exact file_anchored3. Qed.
Print Assumptions C18_file_anchored3.

(** blanks around the fields, the keys and the values change nothing *)
Theorem C18_parameters_blanks : forall fps, Forall (fun fp => wf_field (fst fp) /\ wf_pads (snd fp)) fps ->
  NoDup (map (fun fp => f_key (fst fp)) fps) ->
  parse_search_parameters (pspec_padded fps) = post_params (map (fun fp => meaning (fst fp)) fps).
Proof. exact parse_search_parameters_padded. Qed.
Print Assumptions C18_parameters_blanks.

Theorem C18_round_trip_blanks : forall a t, wf_sast_padded a ->
  parse_spec (show_sast_padded a) t =
  match post_params (map (fun fp => meaning (fst fp)) (sp_ast_fields a)) with
  | Err => Err
  | Ok ps => finish (sp_ast_name a) (mark_front (sp_ast_mark a)) (mark_back (sp_ast_mark a)) (sp_ast_core a) ps t
  end.
Proof. exact parse_spec_printed_padded. Qed.
Print Assumptions C18_round_trip_blanks.

Example C18_round_trip_blanks_instance :
  wf_sast_padded ex_padded /\
  show_sast_padded ex_padded = [32;97;100;97;112;32;61;32;94;65;67;71;84;78;78;65;67;32;59;32;101;32;61;32;48;46;49;53;32;59;110;111;105;110;100;101;108;115;32] /\
  parse_spec (show_sast_padded ex_padded) TFront
  = Ok (mkSpec (Some [97;100;97;112]) RAnchored [65;67;71;84;78;78;65;67] [(KIndels, VInt 0); (KMaxErrors, VDec 15 2)] TFront false).
Proof. split; [exact ex_padded_wf | exact ex_padded_round_trip]. Qed.

(** A...B: the linked adapter is built from the two parsed parts (which parts are required: C18_linked_required) *)
Theorem C18_linked_meaning : forall a1 a2 t base rw aw nm f b, wf_sast a1 -> wf_sast a2 ->
  no_sub3 (show_sast a1 ++ [46; 46]) = true ->
  spec_meaning a1 TFront = Ok f -> spec_meaning a2 TBack = Ok b ->
  make_adapter (show_sast a1 ++ dots ++ show_sast a2) t base rw aw nm = build_linked f b nm t base rw aw.
Proof. exact make_adapter_linked_meaning. Qed.
Print Assumptions C18_linked_meaning.

(** the documented table read off the printed string: option letter x marker -> the parsed restriction; a marker on the wrong
    side for the option is refused, -b takes none *)
Theorem C18_printed_table : forall name m core t, wf_sast (mkA name m core []) ->
  parse_spec (show_sast (mkA name m core [])) t =
  match documented_restriction t m with
  | Some r => Ok (mkSpec name r core [] t false)
  | None => Err
  end.
Proof. exact printed_table. Qed.
Print Assumptions C18_printed_table.

(** the premises are satisfiable: "adap=^ACGTNNAC;e=0.15;noindels" and "^AC{3}G;noindels" are printed forms of
    well-formed abstract specifications, and they mean what the notation says *)
Example C18_round_trip_instance :
  wf_sast ex_sast /\ no_sub3 (show_sast ex_sast) = true /\
  show_sast ex_sast = [97;100;97;112;61;94;65;67;71;84;78;78;65;67;59;101;61;48;46;49;53;59;110;111;105;110;100;101;108;115] /\
  spec_meaning ex_sast TFront = Ok (mkSpec (Some [97;100;97;112]) RAnchored [65;67;71;84;78;78;65;67]
                                           [(KIndels, VInt 0); (KMaxErrors, VDec 15 2)] TFront false) /\
  wf_bast ex_bast /\
  show_bast ex_bast = [94;65;67;123;51;125;71;59;110;111;105;110;100;101;108;115] /\
  parse_spec (show_bast ex_bast) TFront = Ok (mkSpec None RAnchored [65;67;67;67;71] [(KIndels, VInt 0)] TFront false).
Proof.
  destruct ex_sast_wf as (A & B & C). destruct ex_bast_round_trip as (D & E).
  repeat split; try assumption; try exact ex_sast_meaning; try exact ex_bast_wf; apply A || apply ex_bast_wf.
Qed.
