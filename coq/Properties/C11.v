(** C11 -- filters use the documented criteria, in order, one destination per read.
    Property theorems only.  The filter order is regenerated from cli.py (Generated/Orders.v).
    The three float criteria (--max-n as a fraction, --max-ee, --max-aer) are parameters of the
    model here; their PrimFloat instances are in Model/PipelineFloat.v. *)
From Coq Require Import ZArith List Bool.
From CV Require Import Generated.Orders Model.Base Model.Qualtrim Model.Pipeline Model.PipelineRun Proofs.PipelineProofs Proofs.OrderProofs.
Import ListNotations.
Open Scope Z_scope.

Theorem C11_order :
  filter_order = [FTooShort; FTooLong; FMaxN; FMaxEE; FMaxAER; FCasava; FDiscardTrimmed; FDiscardUntrimmed; FUntrimmedOut] /\
  text_writers_before_filters = true /\ sink_after_filters = true.
Proof. exact filter_order_documented. Qed.
Print Assumptions C11_order.

(** the first filter that applies consumes the read; no earlier one applied; nothing later sees it *)
Theorem C11_first : forall fs r i cat redir,
  run_filters fs r i = Some (Filtered cat redir) ->
  exists pre p post, fs = pre ++ (cat, p, redir) :: post /\ p r i = true /\
                     forall f, In f pre -> snd (fst f) r i = false.
Proof. exact run_filters_first. Qed.
Print Assumptions C11_first.

Theorem C11_passes_iff_none_applies : forall fs r i,
  run_filters fs r i = None <-> forall f, In f fs -> snd (fst f) r i = false.
Proof. exact run_filters_none. Qed.
Print Assumptions C11_passes_iff_none_applies.

Theorem C11_criteria : forall o,
  (forall m, o_min_len o = Some m ->
     filters_of_kind o FTooShort = [(1, fun r _ => rlen r <? m, if o_too_short_output o then Some 1 else None)]) /\
  (forall m, o_max_len o = Some m ->
     filters_of_kind o FTooLong = [(2, fun r _ => m <? rlen r, if o_too_long_output o then Some 2 else None)]) /\
  (forall c, o_max_n o = Some c ->
     filters_of_kind o FMaxN = [(3, fun r _ => c <? n_count (rseq r), None)]) /\
  (o_casava o = true -> filters_of_kind o FCasava = [(6, fun r _ => casava_filtered (rname r), None)]) /\
  (o_min_len o = None -> filters_of_kind o FTooShort = []) /\
  (o_max_len o = None -> filters_of_kind o FTooLong = []) /\
  (o_casava o = false -> filters_of_kind o FCasava = []).
Proof. exact criteria. Qed.
Print Assumptions C11_criteria.

Theorem C11_boundaries : forall r (i : minfo) m,
  (rlen r = m -> (rlen r <? m) = false) /\ (rlen r = m -> (m <? rlen r) = false) /\
  (n_count (rseq r) = m -> (m <? n_count (rseq r)) = false).
Proof. exact boundary_kept. Qed.
Print Assumptions C11_boundaries.
