(** C20 -- per-adapter statistics describe exactly the matches that were applied.
    Property theorems only.  [tally] = the incremental bookkeeping of the statistics classes
    (errors[removed length][errors] += 1 per adapter and end); the events are produced by the
    pipeline model from the matches it applied.  [error_ranges] = ErrorRanges._compute_lengths
    after the repair dc20406 of /repo. *)
From Coq Require Import ZArith List Bool.
From CV Require Import Model.Base Model.Pipeline Proofs.PipelineProofs Proofs.TallyProofs.
Import ListNotations.
Open Scope Z_scope.

(** the table entry for (adapter, end, removed length, errors) = number of applied matches with that key *)
Theorem C20_tally : forall evs k,
  lookup_key k (tally evs) = zsum_map (fun e => if skey_eqb (ev_key e) k then 1 else 0) evs.
Proof. exact tally_counts. Qed.
Print Assumptions C20_tally.

(** merging the statistics of two chunks = statistics of the concatenation (used by C06) *)
Theorem C20_tally_merge : forall evs1 evs2 k,
  lookup_key k (tally (evs1 ++ evs2)) = lookup_key k (tally evs1) + lookup_key k (tally evs2).
Proof. exact tally_app. Qed.
Print Assumptions C20_tally_merge.

(** allowed-errors ranges: for every length L up to the number of non-N adapter bases n, the number
    of break points below L -- i.e. the index i with lengths[i-1] < L <= lengths[i] -- is thr L = int(L * rate) *)
Theorem C20_ranges : forall thr : Z -> Z,
  thr 0 = 0 -> (forall a b, 0 <= a <= b -> thr a <= thr b) ->
  forall n L, 0 <= n -> 1 <= L <= n -> below L (error_ranges thr n) = thr L.
Proof. exact error_ranges_spec. Qed.
Print Assumptions C20_ranges.

Theorem C20_ranges_shape : forall thr : Z -> Z,
  thr 0 = 0 -> (forall a b, 0 <= a <= b -> thr a <= thr b) ->
  forall n, 0 <= n -> zlen (error_ranges thr n) = thr n + 1 /\ List.last (error_ranges thr n) 0 = n.
Proof. exact error_ranges_shape. Qed.
Print Assumptions C20_ranges_shape.

(** -e 0.3, 10 bp adapter: [3; 6; 9; 10] (the unrepaired code reported [2; 5; 9; 10]) *)
Example C20_ranges_example : error_ranges (fun L => L * 3 / 10) 10 = [3; 6; 9; 10].
Proof. vm_compute. reflexivity. Qed.
