(** C17 -- the info file locates every match and reconstructs every read.  Property theorems only.
    Model: info_rows = InfoFileWriter.__call__ + get_info_records (single and linked).
    [cur] is the read a match row is computed from: info.original_read (reverse-complemented if
    flagged) for the first round, what the previous round left for later rounds.

    KNOWN FINDING F17 (see known_findings.json): the matches are found in the read *as the adapter
    stage received it*; when an earlier stage removed bases from the 5' end (-u N, -q N,M with a 5'
    cutoff) that read is not [cur], the coordinates are shifted and the middle field is not the
    aligned stretch.  C17_fields therefore has the hypothesis [sm_ok (rlen cur) x] (the match lies
    in a sequence as long as cur), which holds when no stage before the adapter stage changed the
    read (C09_match_in_range), and C17_F17_refuted exhibits the failure on the faithful model. *)
From Coq Require Import ZArith List Bool.
From CV Require Import Generated.Orders Model.Base Model.Align Model.Adapters Model.Pipeline Model.PipelineRun
  Proofs.AdapterProofs Proofs.StageProofs Proofs.ActionProofs Proofs.OrderProofs.
Import ListNotations.
Open Scope Z_scope.

Theorem C17_fields : forall suffix aname x cur,
  sm_ok (rlen cur) x -> wf_read cur ->
  let rec := info_record suffix aname x cur in
  length rec = 11%nat /\
  nth 1 rec (FI 0) = FI (merrors (sm x)) /\ nth 2 rec (FI 0) = FI (rstart (sm x)) /\ nth 3 rec (FI 0) = FI (rstop (sm x)) /\
  field_str (nth 4 rec (FI 0)) ++ field_str (nth 5 rec (FI 0)) ++ field_str (nth 6 rec (FI 0)) = rseq cur /\
  field_str (nth 5 rec (FI 0)) = zslice (rseq cur) (rstart (sm x)) (rstop (sm x)) /\
  nth 7 rec (FI 0) = FS aname /\
  field_str (nth 8 rec (FI 0)) ++ field_str (nth 9 rec (FI 0)) ++ field_str (nth 10 rec (FI 0)) =
    match rqual cur with Some q => q | None => [] end.
Proof. exact info_record_fields. Qed.
Print Assumptions C17_fields.

(** the info writer sits before every filter: filtered reads get their rows too *)
Theorem C17_before_filters : text_writers_before_filters = true.
Proof. exact (proj1 (proj2 filter_order_documented)). Qed.
Print Assumptions C17_before_filters.

(** F17 on the faithful model: -u 5 -a TTTTGGGG on AAAACCCCTTTTGGGGACGT; the adapter is found at [7,15)
    of the cut read, the row shows original[7:15] = ACCCCTTT instead of TTTTGGGG *)
Theorem C17_F17_refuted :
  exists row, out_info (process_cli f17_o f17_r) = [row] /\
              field_str (nth 5 row (FI 0)) = [65;67;67;67;67;84;84;84] /\        (* ACCCCTTT *)
              field_str (nth 5 row (FI 0)) <> [84;84;84;84;71;71;71;71].         (* TTTTGGGG *)
Proof. exact f17_witness. Qed.
Print Assumptions C17_F17_refuted.
