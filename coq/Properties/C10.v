(** C10 -- read modifications are applied in the documented fixed order.
    Property theorems only.  The order is *regenerated from cli.py on every run*
    (Generated/Orders.v); C10_order is the closed equality that stops compiling when two stages
    are swapped in the source.  The model's option record is a set (only the -u values keep their
    order), so "whatever the order of options on the command line" is the statement that the
    implementation agrees with the model under permuted argv -- checked by the correspondence. *)
From Coq Require Import ZArith List Bool.
From CV Require Import Generated.Orders Model.Base Model.Pipeline Model.PipelineRun Proofs.ModifyProofs Proofs.OrderProofs.
Import ListNotations.
Open Scope Z_scope.

Theorem C10_order :
  modifier_order = [KCut; KNextseq; KQual; KAdapters; KPolyA; KLength; KTrimN; KLengthTag; KStripSuffix; KPrefixSuffix; KZeroCap] /\
  modifier_order_with_rename = map Some documented_modifier_order ++ [None].
Proof. exact modifier_order_documented. Qed.
Print Assumptions C10_order.

(** every step sees exactly the output of the previous one *)
Theorem C10_compose : forall order o r,
  modify order o r = fold_left (fun ri st => apply_stage o st ri) (stages order o) (r, init_info r).
Proof. exact modify_compose. Qed.
Print Assumptions C10_compose.

Theorem C10_split : forall order1 order2 o r,
  modify (order1 ++ order2) o r =
  fold_left (fun ri st => apply_stage o st ri) (stages order2 o)
            (fold_left (fun ri st => apply_stage o st ri) (stages order1 o) (r, init_info r)).
Proof. exact modify_split. Qed.
Print Assumptions C10_split.

(** an option that is not given contributes no stage *)
Theorem C10_absent : forall o,
  (o_cuts o = [] -> stages_of_kind o KCut = []) /\
  (o_nextseq o = None -> stages_of_kind o KNextseq = []) /\
  (o_qcut o = None -> stages_of_kind o KQual = []) /\
  (o_adapters o = [] -> stages_of_kind o KAdapters = []) /\
  (o_poly_a o = false -> o_poly_t o = false -> stages_of_kind o KPolyA = []) /\
  (o_length o = None -> stages_of_kind o KLength = []) /\
  (o_trim_n o = false -> stages_of_kind o KTrimN = []) /\
  (o_zero_cap o = false -> stages_of_kind o KZeroCap = []).
Proof. exact absent_option_no_stage. Qed.
Print Assumptions C10_absent.

(** the adapter stage sits between the cut/quality stages and everything else *)
Theorem C10_around_adapters : forall o,
  exists pre mid post,
    stages modifier_order o = pre ++ mid ++ post /\ (mid = [] \/ mid = [StAdapters]) /\
    Forall (fun st => st <> StAdapters) pre /\ Forall (fun st => st <> StAdapters) post.
Proof. exact stages_cli_decomp. Qed.
Print Assumptions C10_around_adapters.
