(** C01 -- stub, replaced below *)
From Coq Require Import ZArith List Bool.
From CV Require Import Model.Align Model.Adapters.
