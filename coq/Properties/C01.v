(** C01 -- every reported adapter match is a genuine, in-tolerance occurrence.
    Property theorems only; every proof is [exact <lemma>].
    Model: Model/Align.v (Aligner.locate, the two comparers), Model/Adapters.v (the eight
    adapter classes; flag values regenerated from the source into Generated/Flags.v).

    Proved here, for every adapter, every threshold table and every read of any length:
    coordinates inside adapter and read, the documented placement rule of the adapter type,
    minimum overlap, errors <= thr(number of non-N adapter characters aligned), removal side;
    and for the comparers (anchored adapters without indels) that the reported error count
    is exactly the Hamming distance of the two intervals.

    NOT proved here (named so in MANIFEST/DESIGN: C01_sound is partial in this respect):
    that the cost reported by the banded DP of Aligner.locate equals the edit distance of the
    reported intervals.  That clause is covered by the correspondence of the model with the
    implementation plus the textbook-distance oracle only. *)
From Coq Require Import ZArith List Bool.
From CV Require Import Generated.Flags Model.Align Model.Adapters Proofs.AlignProofs Proofs.AdapterProofs.
Import ListNotations.
Open Scope Z_scope.

(** Aligner.locate, all 16 flag sets *)
Theorem C01_locate_structure : forall thr cfg wq ref query r,
  0 <= thr (zlen ref) ->
  locate thr cfg wq ref query = Some r -> locate_ok thr cfg ref (zlen query) r.
Proof. exact locate_structure. Qed.
Print Assumptions C01_locate_structure.

(** all eight adapter classes (with and without force_anywhere) *)
Theorem C01_sound_partial : forall thr ad read mt,
  wf_adapter ad -> 0 <= thr (zlen (a_seq ad)) ->
  match_to thr ad read = Some mt -> match_ok thr ad (zlen read) mt.
Proof. exact match_to_structure. Qed.
Print Assumptions C01_sound_partial.

(** anchored adapters without indels: errors = Hamming distance of the intervals *)
Theorem C01_comparer_exact : forall wref wq max_k ov ref query a0 a1 r0 r1 sc e,
  prefix_locate wref wq max_k ov ref query = Some (a0, a1, r0, r1, sc, e) ->
  let '(s1, s2) := translate_pair wref wq ref query in
  a0 = 0 /\ r0 = 0 /\ a1 = r1 /\
  e = mismatches (eqc_of wref wq) (zslice s1 a0 a1) (zslice s2 r0 r1) /\
  e <= max_k /\ sc = (a1 - a0) - 2 * e.
Proof. exact prefix_locate_exact. Qed.
Print Assumptions C01_comparer_exact.

(** non-vacuity: a concrete 3' adapter with one mismatch inside a read; the hypotheses hold
    and a match is reported *)
Definition ex_ad : adapter := mkAd Back [65;67;71;84;65;67]%Z true false true 3 false.   (* ACGTAC *)
Definition ex_thr : Z -> Z := thr_of [0;0;0;0;0;1;1].                                    (* rate 0.2 *)
Example C01_nonvacuous :
  wf_adapter ex_ad /\ 0 <= ex_thr (zlen (a_seq ex_ad)) /\
  match_to ex_thr ex_ad [84;84;65;67;71;71;65;67;84]%Z = Some (mkM 0 6 2 8 4 1 1).       (* TTACGgACT *)
Proof. vm_compute. repeat split; congruence. Qed.
