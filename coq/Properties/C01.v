(** C01 -- every reported adapter match is a genuine, in-tolerance occurrence.
    Property theorems only; every proof is [exact <lemma>].
    Model: Model/Align.v (Aligner.locate, the two comparers), Model/Adapters.v (the eight
    adapter classes; flag values regenerated from the source into Generated/Flags.v).

    Proved here, for every adapter, every threshold table and every read of any length:
    coordinates inside adapter and read, the documented placement rule of the adapter type,
    minimum overlap, errors <= thr(number of non-N adapter characters aligned), removal side;
    and for the comparers (anchored adapters without indels) that the reported error count
    is exactly the Hamming distance of the two intervals.

    Also proved (Proofs/AlignDist.v, a second invariant on every cell of the DP column whose cost is
    within the budget): the reported number of errors is ACHIEVED by an alignment of the two
    reported intervals -- there is an edit script (matches between compatible characters under the
    configured wildcard rules, substitutions, insertions and deletions at the configured indel cost)
    from the adapter interval to the read interval of cost at most the reported errors.  So the true
    edit distance of the two intervals is <= reported errors <= threshold: the occurrence is genuine
    and within tolerance, for all eight classes, all 16 flag sets, every read.

    And (Proofs/AlignOpt.v, AlignOptTail.v): for EVERY adapter class that uses the aligner, with indels
    enabled (indel cost 1) or disabled (indel cost 100000), the reported errors are EXACTLY the edit
    distance of the two reported intervals: achieved by an alignment, and no alignment of the two
    intervals is cheaper.  Lower-bound invariant on every DP cell over all admissible start positions;
    diagonal monotonicity of the edit distance justifies the Ukkonen cut-off; for the two classes that
    must end at the end of the read (SuffixAdapter with indels, NonInternalBackAdapter) the DP starts in
    column max(0, n-m-k) with over-estimated costs for alignments that begin earlier, and a further
    invariant shows that such alignments cost more than k and are never accepted.
    With C01_comparer_exact (Hamming distance for the comparers) the error clause of C01 is a theorem
    for all eight classes.

    What remains outside the theorems: the float comparison cost <= L*rate is a table thr[L] computed by
    CPython with the code's own expression; C int overflow is not modelled. *)
From Coq Require Import ZArith List Bool.
From CV Require Import Generated.Flags Model.Align Model.Adapters Proofs.AlignProofs Proofs.AdapterProofs Proofs.AlignDist Proofs.AlignOpt Proofs.AlignOptTail.
Import ListNotations.
Open Scope Z_scope.

(** Aligner.locate, all 16 flag sets *)
Theorem C01_locate_structure : forall thr cfg wq ref query r,
  0 <= thr (zlen ref) ->
  locate thr cfg wq ref query = Some r -> locate_ok thr cfg ref (zlen query) r.
Proof. exact locate_structure. Qed.
Print Assumptions C01_locate_structure.

(** all eight adapter classes (with and without force_anywhere) *)
Theorem C01_sound_partial : forall thr ad read mt,
  wf_adapter ad -> 0 <= thr (zlen (a_seq ad)) ->
  match_to thr ad read = Some mt -> match_ok thr ad (zlen read) mt.
Proof. exact match_to_structure. Qed.
Print Assumptions C01_sound_partial.

(** anchored adapters without indels: errors = Hamming distance of the intervals *)
Theorem C01_comparer_exact : forall wref wq max_k ov ref query a0 a1 r0 r1 sc e,
  prefix_locate wref wq max_k ov ref query = Some (a0, a1, r0, r1, sc, e) ->
  let '(s1, s2) := translate_pair wref wq ref query in
  a0 = 0 /\ r0 = 0 /\ a1 = r1 /\
  e = mismatches (eqc_of wref wq) (zslice s1 a0 a1) (zslice s2 r0 r1) /\
  e <= max_k /\ sc = (a1 - a0) - 2 * e.
Proof. exact prefix_locate_exact. Qed.
Print Assumptions C01_comparer_exact.

(** the reported errors are achieved by an alignment of the reported intervals: Aligner.locate,
    all 16 flag sets, any threshold function bounded by its value at the adapter length *)
Theorem C01_locate_errors_achieved : forall thr cfg wq ref query rs re qs qe sc e,
  1 <= indel_cost cfg -> 0 <= thr (zlen ref) -> (forall L, thr L <= thr (zlen ref)) ->
  locate thr cfg wq ref query = Some (rs, re, qs, qe, sc, e) ->
  ed (loc_eqc cfg wq) (indel_cost cfg) (zslice (loc_s1 cfg wq ref) rs re) (zslice (loc_s2 cfg wq query) qs qe) e.
Proof. exact locate_dist. Qed.
Print Assumptions C01_locate_errors_achieved.

(** ... and for all adapter classes that use the aligner (incl. the class that aligns the reversed strings) *)
Theorem C01_errors_achieved : forall thr ad read mt,
  uses_comparer ad = false -> 0 <= thr (zlen (a_seq ad)) -> (forall L, thr L <= thr (zlen (a_seq ad))) ->
  match_to thr ad read = Some mt ->
  ed (loc_eqc (ad_cfg ad) (a_wq ad)) (indel_cost (ad_cfg ad))
     (zslice (loc_s1 (ad_cfg ad) (a_wq ad) (a_seq ad)) (astart mt) (astop mt))
     (zslice (loc_s2 (ad_cfg ad) (a_wq ad) (ad_query ad read)) (rstart mt) (rstop mt)) (merrors mt).
Proof. exact match_to_dist. Qed.
Print Assumptions C01_errors_achieved.

(** the reported errors ARE the edit distance of the reported intervals (achieved, and minimal):
    every adapter class that uses the aligner, indels enabled (indel cost 1) or disabled (100000) *)
Theorem C01_errors_exact : forall thr ad read mt,
  uses_comparer ad = false ->
  0 <= thr (zlen (a_seq ad)) -> (forall L, thr L <= thr (zlen (a_seq ad))) ->
  match_to thr ad read = Some mt ->
  let A := zslice (loc_s1 (ad_cfg ad) (a_wq ad) (a_seq ad)) (astart mt) (astop mt) in
  let B := zslice (loc_s2 (ad_cfg ad) (a_wq ad) (ad_query ad read)) (rstart mt) (rstop mt) in
  ed (loc_eqc (ad_cfg ad) (a_wq ad)) (indel_cost (ad_cfg ad)) A B (merrors mt) /\
  forall c, ed (loc_eqc (ad_cfg ad) (a_wq ad)) (indel_cost (ad_cfg ad)) A B c -> merrors mt <= c.
Proof. exact match_to_exact_all. Qed.
Print Assumptions C01_errors_exact.

(** ... at the level of Aligner.locate: flag sets that must end at the end of the query and may start
    anywhere in it but not inside the reference *)
Theorem C01_locate_errors_minimal_tail : forall thr cfg wq ref query rs re qs qe sc e c,
  1 <= indel_cost cfg -> start_in_ref cfg = false -> start_in_query cfg = true -> stop_in_query cfg = false ->
  0 <= thr (zlen ref) -> (forall L, thr L <= thr (zlen ref)) ->
  locate thr cfg wq ref query = Some (rs, re, qs, qe, sc, e) ->
  ed (loc_eqc cfg wq) (indel_cost cfg) (zslice (loc_s1 cfg wq ref) rs re) (zslice (loc_s2 cfg wq query) qs qe) c -> e <= c.
Proof. exact locate_opt_tail. Qed.
Print Assumptions C01_locate_errors_minimal_tail.

(** ... at the level of Aligner.locate: every flag set that may stop anywhere in the query *)
Theorem C01_locate_errors_minimal : forall thr cfg wq ref query rs re qs qe sc e c,
  1 <= indel_cost cfg -> stop_in_query cfg = true -> 0 <= thr (zlen ref) -> (forall L, thr L <= thr (zlen ref)) ->
  locate thr cfg wq ref query = Some (rs, re, qs, qe, sc, e) ->
  ed (loc_eqc cfg wq) (indel_cost cfg) (zslice (loc_s1 cfg wq ref) rs re) (zslice (loc_s2 cfg wq query) qs qe) c -> e <= c.
Proof. exact locate_opt. Qed.
Print Assumptions C01_locate_errors_minimal.

(** the hypothesis on the threshold function holds for every non-negative non-decreasing table *)
Theorem C01_threshold_tables : forall tab, table_ok tab -> 0 < zlen tab ->
  0 <= thr_of tab (zlen tab - 1) /\ forall L, thr_of tab L <= thr_of tab (zlen tab - 1).
Proof. exact thr_of_bound. Qed.
Print Assumptions C01_threshold_tables.

(** non-vacuity: a concrete 3' adapter with one mismatch inside a read; the hypotheses hold
    and a match is reported *)
Definition ex_ad : adapter := mkAd Back [65;67;71;84;65;67]%Z true false true 3 false.   (* ACGTAC *)
Definition ex_thr : Z -> Z := thr_of [0;0;0;0;0;1;1].                                    (* rate 0.2 *)
Example C01_nonvacuous :
  wf_adapter ex_ad /\ 0 <= ex_thr (zlen (a_seq ex_ad)) /\
  match_to ex_thr ex_ad [84;84;65;67;71;71;65;67;84]%Z = Some (mkM 0 6 2 8 4 1 1).       (* TTACGgACT *)
Proof. vm_compute. repeat split; congruence. Qed.

(** the hypotheses of C01_errors_achieved hold for the same concrete adapter and table *)
Example C01_nonvacuous_achieved :
  uses_comparer ex_ad = false /\ 0 <= ex_thr (zlen (a_seq ex_ad)) /\ (forall L, ex_thr L <= ex_thr (zlen (a_seq ex_ad))).
Proof.
  split; [reflexivity|]. split; [vm_compute; congruence|]. intros L. unfold ex_thr, thr_of, znth.
  destruct (L <? 0); [vm_compute; congruence|].
  destruct (Z.to_nat L) as [|[|[|[|[|[|[|k]]]]]]]; vm_compute; try congruence. destruct k; congruence.
Qed.
