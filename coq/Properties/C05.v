(** C05 -- paired-end outputs stay synchronized and pairs are filtered as a unit.
    Property theorems only.  Model: Model/Paired.v (the paired pipeline on top of the single-end stages).
    In the model a paired output file is a list of pairs: both mates of a pair are routed together by
    construction of [pstep]; that the two physical files (or the interleaved file) really receive both
    records is dnaio's paired writer -- exercised by the correspondence, not modelled. *)
From Coq Require Import ZArith List Bool.
From CV Require Import Model.Base Model.Pipeline Model.Paired Proofs.PipelineProofs Proofs.PairedProofs.
Import ListNotations.
Open Scope Z_scope.

(** every pair file = the pairs routed there, both mates together, once each, in input order;
    the R1 and R2 projections have equal length and record k of both comes from the same input pair *)
Theorem C05_sync : forall order forder p pairs d,
  let file := precords_of d (pr_files (prun order forder p pairs)) in
  file = map (fun o => (po_r1 o, po_r2 o))
             (filter (fun o => match p_out_file o with Some d' => d' =? d | None => false end) (poutcomes order forder p pairs)) /\
  length (map fst file) = length (map snd file).
Proof. exact pair_files_synchronized. Qed.
Print Assumptions C05_sync.

(** a pair is kept, redirected or discarded as a unit: one fate *)
Theorem C05_unit : forall out : poutcome,
  (p_is_written out = true /\ exists d, p_out_file out = Some d) \/ (p_is_written out = false).
Proof. exact pair_one_fate. Qed.
Print Assumptions C05_unit.

(** the documented truth table of --pair-filter; a one-sided LEN: / :LEN2 bound looks at that mate only *)
Theorem C05_mode : forall (f1 f2 : pred) r1 r2 i1 i2,
  pair_decision PFAny (Some f1) (Some f2) r1 r2 i1 i2 = (f1 r1 i1 || f2 r2 i2) /\
  pair_decision PFBoth (Some f1) (Some f2) r1 r2 i1 i2 = (f1 r1 i1 && f2 r2 i2) /\
  pair_decision PFFirst (Some f1) (Some f2) r1 r2 i1 i2 = f1 r1 i1 /\
  (forall mode, pair_decision mode (Some f1) None r1 r2 i1 i2 = f1 r1 i1) /\
  (forall mode, pair_decision mode None (Some f2) r1 r2 i1 i2 = f2 r2 i2).
Proof. exact pair_decision_table. Qed.
Print Assumptions C05_mode.

(** 'both' is forced for the untrimmed filters when adapters are given for one side only -- and only then *)
Theorem C05_override : forall p,
  (o_adapters (po_base p) = [] \/ po_adapters2 p = []) ->
  (o_discard_untrimmed (po_base p) = true \/ o_untrimmed_output (po_base p) = true) ->
  untrimmed_mode p = PFBoth.
Proof. exact untrimmed_override. Qed.
Print Assumptions C05_override.

Theorem C05_no_override : forall p,
  o_adapters (po_base p) <> [] -> po_adapters2 p <> [] -> untrimmed_mode p = pf_mode p.
Proof. exact untrimmed_no_override. Qed.
Print Assumptions C05_no_override.

(** the first pair filter whose decision is true consumes the pair *)
Theorem C05_first : forall fs r1 r2 i1 i2 cat redir,
  run_pfilters fs r1 r2 i1 i2 = Some (Filtered cat redir) ->
  exists pre mode p1 p2 post, fs = pre ++ (cat, mode, p1, p2, redir) :: post /\
    pair_decision mode p1 p2 r1 r2 i1 i2 = true /\
    forall f, In f pre -> let '(_, m, q1, q2, _) := f in pair_decision m q1 q2 r1 r2 i1 i2 = false.
Proof. exact run_pfilters_first. Qed.
Print Assumptions C05_first.

(** --pair-adapters: both mates trimmed by adapters of the same rank, or neither mate changed *)
Theorem C05_pair_adapters : forall o1 o2 r1 r2,
  let '(a1, a2, m1, m2) := pair_adapters_stage o1 o2 r1 r2 in
  (m1 = [] /\ m2 = [] /\ a1 = r1 /\ a2 = r2) \/
  (exists x1 x2, m1 = [x1] /\ m2 = [x2] /\ m_idx x1 = m_idx x2 /\
                 a1 = apply_one_match (o_action o1) x1 r1 /\ a2 = apply_one_match (o_action o1) x2 r2).
Proof. exact pair_adapters_both_or_neither. Qed.
Print Assumptions C05_pair_adapters.

(** pairs in = pairs written + pairs counted in the filter categories *)
Theorem C05_totals : forall order forder p pairs,
  let rep := prun order forder p pairs in
  pr_n rep = zlen pairs /\ pr_n rep = pr_written rep + total_filtered (pr_filtered rep).
Proof. exact pair_totals. Qed.
Print Assumptions C05_totals.

(** which mate each option reaches (the paired half of C10) *)
Theorem C05_sides : forall p,
  let o := po_base p in
  o_cuts (side1 p) = o_cuts o /\ o_cuts (side2 p) = po_cuts2 p /\
  o_adapters (side1 p) = o_adapters o /\ o_adapters (side2 p) = po_adapters2 p /\
  o_qcut (side1 p) = o_qcut o /\
  o_qcut (side2 p) = (match po_qcut2 p with Some q => q | None => o_qcut o end) /\
  o_length (side1 p) = o_length o /\
  o_length (side2 p) = (match po_length2 p with Some l => Some l | None => o_length o end) /\
  o_nextseq (side2 p) = o_nextseq o /\ o_trim_n (side2 p) = o_trim_n o /\ o_length_tag (side2 p) = o_length_tag o /\
  o_strip_suffix (side2 p) = o_strip_suffix o /\ o_prefix (side2 p) = o_prefix o /\ o_suffix (side2 p) = o_suffix o /\
  o_zero_cap (side2 p) = o_zero_cap o /\
  o_poly_a (side2 p) = false /\ o_poly_t (side2 p) = o_poly_a o.
Proof. exact sides. Qed.
Print Assumptions C05_sides.

Theorem C05_stages_per_mate : forall p k s,
  k <> KAdapters -> apply_pkind p k s = (apply_kind (side1 p) k (fst s), apply_kind (side2 p) k (snd s)).
Proof. exact pstage_independent. Qed.
Print Assumptions C05_stages_per_mate.

(** interleaved layout carries the same pairs *)
Theorem C05_interleave : forall pairs, deinterleave (interleave pairs) = pairs.
Proof. exact deinterleave_interleave. Qed.
Print Assumptions C05_interleave.
