(** C02 -- admissible adapter occurrences are found; exact copies never survive.
    Property theorems only; every proof is [exact <lemma>].

    Proved here, for the comparers (anchored 5'/3' adapters with indels disabled): *every*
    occurrence at the anchored end whose Hamming distance is within the tolerance is reported,
    with exactly that distance and removing exactly min(|adapter|,|read|) characters; in
    particular an error-free anchored adapter is removed exactly.  Together with
    C07_comparers_unfiltered this holds for match_to as the user gets it (no prefilter there).

    NOT proved here (C02 is partial in this respect): completeness of the banded DP of
    Aligner.locate (the clauses for regular / non-internal / anywhere adapters and for anchored
    adapters with indels, and the three cut-position clauses).  Those rest on the correspondence
    (model = implementation for prefiltered match_to of all eight classes) and on the
    planted-occurrence / brute-force / cut-position oracle run against the implementation. *)
From Coq Require Import ZArith List Bool.
From CV Require Import Generated.Scores Model.Align Model.Adapters Model.Kmer Proofs.AdapterProofs Proofs.KmerProofs.
Import ListNotations.
Open Scope Z_scope.

Theorem C02_anchored_noindels_complete : forall wref wq max_k ov ref query,
  let '(s1, s2) := translate_pair wref wq ref query in
  let e := mismatches (eqc_of wref wq) s1 s2 in
  e <= max_k -> ov <= Z.min (zlen ref) (zlen query) ->
  prefix_locate wref wq max_k ov ref query =
    Some (0, Z.min (zlen ref) (zlen query), 0, Z.min (zlen ref) (zlen query),
          (Z.min (zlen ref) (zlen query) - e) * MATCH_SCORE + e * MISMATCH_SCORE, e).
Proof. exact prefix_locate_complete. Qed.
Print Assumptions C02_anchored_noindels_complete.

Theorem C02_anchored_noindels_unfiltered : forall thr ad read,
  uses_comparer ad = true -> match_to_prefiltered thr ad read = match_to thr ad read.
Proof. exact comparer_no_prefilter. Qed.
Print Assumptions C02_anchored_noindels_unfiltered.

(** non-vacuity: ^ACGT against ACGTTT with zero errors allowed is removed exactly *)
Example C02_exact_anchored :
  match_to_prefiltered (thr_of [0;0;0;0;0]) (mkAd Prefix [65;67;71;84] false false false 4 false) [65;67;71;84;84;84]
  = Some (mkM 0 4 0 4 4 0 0).
Proof. vm_compute. reflexivity. Qed.
