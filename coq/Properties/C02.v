(** C02 -- admissible adapter occurrences are found; exact copies never survive.
    Property theorems only; every proof is [exact <lemma>].

    Proved here, for the comparers (anchored 5'/3' adapters with indels disabled): *every*
    occurrence at the anchored end whose Hamming distance is within the tolerance is reported,
    with exactly that distance and removing exactly min(|adapter|,|read|) characters; in
    particular an error-free anchored adapter is removed exactly.  Together with
    C07_comparers_unfiltered this holds for match_to as the user gets it (no prefilter there).

    Also proved (Proofs/AlignComplete.v): for regular 5', regular 3' and 'anywhere' adapters (indels
    enabled or disabled), an error-free copy of the whole adapter anywhere in the read is always found by
    the aligner (Aligner.locate reports a match): the DP cells on the diagonal of the copy are tracked
    exactly -- cost 0, so the Ukkonen cut-off cannot drop them -- up to the column where the copy ends,
    where the candidate is accepted unless a candidate is recorded already.

    Also proved (Proofs/AlignFound.v): the with-indels clause.  For every adapter type that cannot skip
    the beginning of the adapter -- regular 3', non-internal 3', anchored 3' and anchored 5' with indels,
    and 'rightmost' 5' (aligned on the reversed strings) -- and indels enabled or disabled: whenever ANY
    admissible occurrence exists (adapter prefix [0, re) against read[p, qe), placed as the type allows,
    at least the minimum overlap long, with an alignment whose cost is within the tolerance for that
    length), the aligner reports a match.  The argument combines C01's lower-bound invariant (every DP
    cell is a lower bound for all admissible alignments ending there) with the Ukkonen cut-off (cells it
    drops hold costs > k) and the two places where candidates are accepted (the column loop for full-length
    occurrences, the last-column scan for occurrences that end at the end of the read).

    Also proved (Proofs/AlignCopyGen.v): the first clause for every remaining shape.  For all types whose
    aligner may stop anywhere in the read (regular and non-internal 5', 'anywhere', and again regular 3' and
    anchored 5'): an error-free occurrence adapter[rs, rs+L) = read[p, p+L) that starts at the beginning of
    the adapter or of the read as the type allows (rs = 0 or p = 0), ends at the end of the adapter or --
    where the type allows a partial adapter -- at the end of the read, and is at least the minimum overlap
    long, is always reported; this includes a read lying inside an 'anywhere' adapter.  (The two types that
    must end at the end of the read, anchored and non-internal 3', are covered by the with-indels clause.)

    That the k-mer prefilter lets all such reads through is C07_no_change (proved in full); its
    consequence for this property is C02_found_is_reported: whatever the aligner finds is what match_to with
    its prefilter reports.

    Also proved (Proofs/AlignCut.v, Proofs/AlignCutTail.v): the cut-position clauses.  If p is the leftmost
    error-free copy of the whole adapter, a regular 5', regular 3' or 'anywhere' adapter reports either exactly
    that copy, [p, p + m), or a match that ends before p + m and starts more than m/2 before p (the aligner's
    "overlaps the previous best sufficiently" rule is why an earlier, poorer match can survive): a 3' adapter
    is therefore cut at or before p and what is kept holds no error-free copy; a 5' adapter is cut at or before
    p + m; on the reversed strings the same gives 'rightmost' (cut at or after the end of the rightmost copy).
    An error-free anchored adapter is removed exactly, also with indels enabled (anchored 5': same theorem with
    the copy at 0; anchored 3': the reported cost is minimal over all starts, hence 0, hence equal lengths).
    Ingredients: the copy's diagonal is tracked exactly; a score of m is reached only at cost 0 by the whole
    adapter; every cell computed at row i in a column j >= p + i has origin >= p (a syntactic invariant of the
    recurrence: on the copy's diagonal the characters are equal, and a stale cell below the Ukkonen band is too
    expensive to be chosen); the stale C variable `origin` read by the last-column scan is >= p as well.

    What remains outside the theorems: the model of the aligner is tied to `_align.pyx` by the correspondence
    (model = implementation for prefiltered match_to of all eight classes) and by the planted-occurrence /
    brute-force / cut-position oracles run against the implementation. *)
From Coq Require Import ZArith List Bool Lia.
From CV Require Import Generated.Scores Model.Align Model.Adapters Model.Kmer Proofs.AdapterProofs Proofs.KmerProofs Proofs.AlignDist Proofs.AlignOpt Proofs.AlignComplete Proofs.AlignFound Proofs.AlignCopyGen Proofs.AlignCut Proofs.AlignCutTail Proofs.KmerComplete Proofs.KmerOverlap.
Import ListNotations.
Open Scope Z_scope.

Theorem C02_anchored_noindels_complete : forall wref wq max_k ov ref query,
  let '(s1, s2) := translate_pair wref wq ref query in
  let e := mismatches (eqc_of wref wq) s1 s2 in
  e <= max_k -> ov <= Z.min (zlen ref) (zlen query) ->
  prefix_locate wref wq max_k ov ref query =
    Some (0, Z.min (zlen ref) (zlen query), 0, Z.min (zlen ref) (zlen query),
          (Z.min (zlen ref) (zlen query) - e) * MATCH_SCORE + e * MISMATCH_SCORE, e).
Proof. exact prefix_locate_complete. Qed.
Print Assumptions C02_anchored_noindels_complete.

Theorem C02_anchored_noindels_unfiltered : forall thr ad read,
  uses_comparer ad = true -> match_to_prefiltered thr ad read = match_to thr ad read.
Proof. exact comparer_no_prefilter. Qed.
Print Assumptions C02_anchored_noindels_unfiltered.

(** regular 5', regular 3' and 'anywhere' adapters, indels enabled or disabled: an error-free copy of
    the whole adapter anywhere in the read is always reported by the aligner *)
Theorem C02_full_copy_found : forall thr ad read p,
  match a_type ad with Front | Back | Anywhere => True | _ => False end ->
  1 <= zlen (a_seq ad) -> a_min_overlap ad <= zlen (a_seq ad) ->
  (forall L, 0 <= thr L) -> (forall L, thr L <= thr (zlen (a_seq ad))) -> thr (zlen (a_seq ad)) <= zlen (a_seq ad) ->
  0 <= p -> p + zlen (a_seq ad) <= zlen read ->
  (forall t, 0 <= t < zlen (a_seq ad) ->
     loc_eqc (ad_cfg ad) (a_wq ad) (znth 0 (loc_s1 (ad_cfg ad) (a_wq ad) (a_seq ad)) t)
                                   (znth 0 (loc_s2 (ad_cfg ad) (a_wq ad) (ad_query ad read)) (p + t)) = true) ->
  match_to thr ad read <> None.
Proof. exact match_to_full_copy. Qed.
Print Assumptions C02_full_copy_found.

(** ... at the level of Aligner.locate: every flag set that may start and stop anywhere in the query *)
Theorem C02_locate_full_copy : forall thr cfg wq ref query p,
  1 <= indel_cost cfg -> start_in_query cfg = true -> stop_in_query cfg = true ->
  1 <= zlen ref -> min_overlap cfg <= zlen ref ->
  (forall L, 0 <= thr L) -> (forall L, thr L <= thr (zlen ref)) -> thr (zlen ref) <= zlen ref ->
  0 <= p -> p + zlen ref <= zlen query ->
  (forall t, 0 <= t < zlen ref -> loc_eqc cfg wq (znth 0 (loc_s1 cfg wq ref) t) (znth 0 (loc_s2 cfg wq query) (p + t)) = true) ->
  locate thr cfg wq ref query <> None.
Proof. exact locate_full_copy. Qed.
Print Assumptions C02_locate_full_copy.

(** the with-indels clause at the level of Aligner.locate: every flag set that cannot skip the beginning
    of the reference; the occurrence is ref[0, re) against query[p, qe) with an alignment of cost c *)
Theorem C02_locate_occurrence_found : forall thr cfg wq ref query p re qe c,
  1 <= indel_cost cfg -> start_in_ref cfg = false ->
  stop_in_query cfg = true \/ start_in_query cfg = true ->
  1 <= zlen ref -> 0 <= thr (zlen ref) -> (forall L, thr L <= thr (zlen ref)) -> thr (zlen ref) <= zlen ref ->
  (p = 0 \/ start_in_query cfg = true) ->
  (re = zlen ref \/ (stop_in_ref cfg = true /\ qe = zlen query)) ->
  (qe = zlen query \/ stop_in_query cfg = true) ->
  0 <= p < qe -> qe <= zlen query -> 0 <= re <= zlen ref -> min_overlap cfg <= re ->
  ed (loc_eqc cfg wq) (indel_cost cfg) (zslice (loc_s1 cfg wq ref) 0 re) (zslice (loc_s2 cfg wq query) p qe) c ->
  c <= thr (eff_len cfg ref (loc_s1 cfg wq ref) re re) ->
  locate thr cfg wq ref query <> None.
Proof. exact locate_found. Qed.
Print Assumptions C02_locate_occurrence_found.

(** ... for the adapter classes: regular 3', non-internal 3', anchored 3' and anchored 5' (with indels;
    without indels the anchored ones are the comparers above) *)
Theorem C02_occurrence_found : forall thr ad read p re qe c,
  uses_comparer ad = false -> class_reversed (a_type ad) = false -> start_in_ref (ad_cfg ad) = false ->
  1 <= zlen (a_seq ad) -> 0 <= thr (zlen (a_seq ad)) -> (forall L, thr L <= thr (zlen (a_seq ad))) -> thr (zlen (a_seq ad)) <= zlen (a_seq ad) ->
  (p = 0 \/ start_in_query (ad_cfg ad) = true) ->
  (re = zlen (a_seq ad) \/ (stop_in_ref (ad_cfg ad) = true /\ qe = zlen read)) ->
  (qe = zlen read \/ stop_in_query (ad_cfg ad) = true) ->
  0 <= p < qe -> qe <= zlen read -> 0 <= re <= zlen (a_seq ad) -> a_min_overlap ad <= re ->
  ed (loc_eqc (ad_cfg ad) (a_wq ad)) (indel_cost (ad_cfg ad))
     (zslice (loc_s1 (ad_cfg ad) (a_wq ad) (a_seq ad)) 0 re) (zslice (loc_s2 (ad_cfg ad) (a_wq ad) (ad_query ad read)) p qe) c ->
  c <= thr (eff_len (ad_cfg ad) (a_seq ad) (loc_s1 (ad_cfg ad) (a_wq ad) (a_seq ad)) re re) ->
  match_to thr ad read <> None.
Proof. exact match_to_found. Qed.
Print Assumptions C02_occurrence_found.

(** ... and for 'rightmost' 5' adapters, in the coordinates of the strings as given: adapter[rs, m)
    against read[qs, qe), cut off at the beginning of the read at most (rs > 0 only with qs = 0) *)
Theorem C02_occurrence_found_rightmost : forall thr ad read rs qs qe c,
  a_type ad = RightmostFront -> a_force_anywhere ad = false ->
  1 <= zlen (a_seq ad) -> 0 <= thr (zlen (a_seq ad)) -> (forall L, thr L <= thr (zlen (a_seq ad))) -> thr (zlen (a_seq ad)) <= zlen (a_seq ad) ->
  (rs = 0 \/ qs = 0) -> 0 <= qs < qe -> qe <= zlen read -> 0 <= rs <= zlen (a_seq ad) -> a_min_overlap ad <= zlen (a_seq ad) - rs ->
  ed (loc_eqc (ad_cfg ad) (a_wq ad)) (indel_cost (ad_cfg ad))
     (zslice (loc_s1 (ad_cfg ad) (a_wq ad) (a_seq ad)) rs (zlen (a_seq ad))) (zslice (loc_s2 (ad_cfg ad) (a_wq ad) read) qs qe) c ->
  c <= thr (eff_len (ad_cfg ad) (rev (a_seq ad)) (loc_s1 (ad_cfg ad) (a_wq ad) (rev (a_seq ad))) (zlen (a_seq ad) - rs) (zlen (a_seq ad) - rs)) ->
  match_to thr ad read <> None.
Proof. exact match_to_found_rightmost. Qed.
Print Assumptions C02_occurrence_found_rightmost.

(** the first clause for every admissible shape of an error-free occurrence: adapter[rs, rs+L) = read[p, p+L),
    rs = 0 or p = 0 as the flags allow, ending at the end of the adapter or (partial adapter) of the read *)
Theorem C02_locate_copy_found : forall thr cfg wq ref query rs p L,
  1 <= indel_cost cfg -> stop_in_query cfg = true ->
  (forall L0, 0 <= thr L0) -> (forall L0, thr L0 <= thr (zlen ref)) -> thr (zlen ref) <= zlen ref ->
  (rs = 0 \/ (p = 0 /\ start_in_ref cfg = true)) -> (p = 0 \/ (rs = 0 /\ start_in_query cfg = true)) ->
  (rs + L = zlen ref \/ (stop_in_ref cfg = true /\ p + L = zlen query)) ->
  0 <= rs -> 0 <= p -> 1 <= L -> rs + L <= zlen ref -> p + L <= zlen query -> min_overlap cfg <= L ->
  (forall t, 0 <= t < L -> loc_eqc cfg wq (znth 0 (loc_s1 cfg wq ref) (rs + t)) (znth 0 (loc_s2 cfg wq query) (p + t)) = true) ->
  locate thr cfg wq ref query <> None.
Proof. exact locate_copy_found. Qed.
Print Assumptions C02_locate_copy_found.

Theorem C02_copy_found : forall thr ad read rs p L,
  uses_comparer ad = false -> class_reversed (a_type ad) = false -> stop_in_query (ad_cfg ad) = true ->
  (forall L0, 0 <= thr L0) -> (forall L0, thr L0 <= thr (zlen (a_seq ad))) -> thr (zlen (a_seq ad)) <= zlen (a_seq ad) ->
  (rs = 0 \/ (p = 0 /\ start_in_ref (ad_cfg ad) = true)) -> (p = 0 \/ (rs = 0 /\ start_in_query (ad_cfg ad) = true)) ->
  (rs + L = zlen (a_seq ad) \/ (stop_in_ref (ad_cfg ad) = true /\ p + L = zlen read)) ->
  0 <= rs -> 0 <= p -> 1 <= L -> rs + L <= zlen (a_seq ad) -> p + L <= zlen read -> a_min_overlap ad <= L ->
  (forall t, 0 <= t < L ->
     loc_eqc (ad_cfg ad) (a_wq ad) (znth 0 (loc_s1 (ad_cfg ad) (a_wq ad) (a_seq ad)) (rs + t))
                                   (znth 0 (loc_s2 (ad_cfg ad) (a_wq ad) (ad_query ad read)) (p + t)) = true) ->
  match_to thr ad read <> None.
Proof. exact match_to_copy_found. Qed.
Print Assumptions C02_copy_found.

(** "a match is reported" refers to match_to as the adapter classes run it, prefilter included (C07) *)
Theorem C02_found_is_reported : forall thr ad read,
  thr 0 = 0 -> (forall i, 0 <= i < zlen (a_seq ad) -> thr i <= thr (i + 1) <= thr i + 1) ->
  (forall i, 1 <= i <= zlen (a_seq ad) -> thr i < i) -> (forall L, thr L <= thr (zlen (a_seq ad))) ->
  ascii (a_seq ad) -> ascii read -> 1 <= a_min_overlap ad -> zlen (a_seq ad) < INDEL_COST_OFF ->
  match_to thr ad read <> None -> match_to_prefiltered thr ad read <> None.
Proof. exact found_is_reported. Qed.
Print Assumptions C02_found_is_reported.

(** non-vacuity: ^ACGT against ACGTTT with zero errors allowed is removed exactly *)
Example C02_exact_anchored :
  match_to_prefiltered (thr_of [0;0;0;0;0]) (mkAd Prefix [65;67;71;84] false false false 4 false) [65;67;71;84;84;84]
  = Some (mkM 0 4 0 4 4 0 0).
Proof. vm_compute. reflexivity. Qed.

(** non-vacuity of C02_full_copy_found: 3' adapter ACGTAC (rate 0.2), read TTACGTACTT, copy at 2 *)
Definition ex2_ad : adapter := mkAd Back [65;67;71;84;65;67] true false true 3 false.
Definition ex2_thr : Z -> Z := thr_of [0;0;0;0;0;1;1].
Definition ex2_read : list Z := [84;84;65;67;71;84;65;67;84;84].
Example C02_nonvacuous_copy :
  (forall L, 0 <= ex2_thr L) /\ (forall L, ex2_thr L <= ex2_thr (zlen (a_seq ex2_ad))) /\
  (forall t, 0 <= t < zlen (a_seq ex2_ad) ->
     loc_eqc (ad_cfg ex2_ad) (a_wq ex2_ad) (znth 0 (loc_s1 (ad_cfg ex2_ad) (a_wq ex2_ad) (a_seq ex2_ad)) t)
             (znth 0 (loc_s2 (ad_cfg ex2_ad) (a_wq ex2_ad) (ad_query ex2_ad ex2_read)) (2 + t)) = true) /\
  match_to ex2_thr ex2_ad ex2_read <> None.
Proof.
  assert (Ht : forall L, 0 <= ex2_thr L <= 1).
  { intros L. unfold ex2_thr, thr_of, znth. destruct (L <? 0); [vm_compute; split; congruence|].
    destruct (Z.to_nat L) as [|[|[|[|[|[|[|k]]]]]]]; try (vm_compute; split; congruence). destruct k; vm_compute; split; congruence. }
  split; [intros L; apply Ht|]. split; [intros L; destruct (Ht L) as [_ H]; exact H|]. split.
  - intros t Hr. change (zlen (a_seq ex2_ad)) with 6 in Hr.
    assert (Hc : t = 0 \/ t = 1 \/ t = 2 \/ t = 3 \/ t = 4 \/ t = 5) by lia.
    destruct Hc as [->|[->|[->|[->|[->| ->]]]]]; vm_compute; reflexivity.
  - vm_compute. discriminate.
Qed.

(** non-vacuity of C02_occurrence_found: -a ACGTACGTAC (10%) on TTACGTTCGTACGG: the copy at [2, 12) has one
    mismatch; all premises hold and the conclusion is the computed answer *)
Definition ex3_ad : adapter := mkAd Back [65;67;71;84;65;67;71;84;65;67] true false true 3 false.
Definition ex3_thr : Z -> Z := thr_of [0;0;0;0;0;0;0;0;0;0;1].
Definition ex3_read : list Z := [84;84;65;67;71;84;84;67;71;84;65;67;71;71].
Example C02_nonvacuous_occurrence :
  uses_comparer ex3_ad = false /\ class_reversed (a_type ex3_ad) = false /\ start_in_ref (ad_cfg ex3_ad) = false /\
  (forall L, ex3_thr L <= ex3_thr (zlen (a_seq ex3_ad))) /\ start_in_query (ad_cfg ex3_ad) = true /\ stop_in_query (ad_cfg ex3_ad) = true /\
  ed (loc_eqc (ad_cfg ex3_ad) (a_wq ex3_ad)) (indel_cost (ad_cfg ex3_ad))
     (zslice (loc_s1 (ad_cfg ex3_ad) (a_wq ex3_ad) (a_seq ex3_ad)) 0 10) (zslice (loc_s2 (ad_cfg ex3_ad) (a_wq ex3_ad) (ad_query ex3_ad ex3_read)) 2 12) 1 /\
  1 <= ex3_thr (eff_len (ad_cfg ex3_ad) (a_seq ex3_ad) (loc_s1 (ad_cfg ex3_ad) (a_wq ex3_ad) (a_seq ex3_ad)) 10 10) /\
  match_to ex3_thr ex3_ad ex3_read <> None.
Proof.
  split; [reflexivity|]. split; [reflexivity|]. split; [vm_compute; reflexivity|].
  split.
  { intros L. change (ex3_thr (zlen (a_seq ex3_ad))) with 1.
    apply (thr_of_bounds [0;0;0;0;0;0;0;0;0;0;1] 0 1); [repeat constructor; lia | lia]. }
  split; [vm_compute; reflexivity|]. split; [vm_compute; reflexivity|]. split.
  { eapply ed_weak; [apply ed_mismatches; vm_compute; reflexivity|]. vm_compute. discriminate. }
  split; [vm_compute; discriminate | vm_compute; discriminate].
Qed.

(** non-vacuity of C02_copy_found: -g ACGTACGTAC on TACGTACGGTT: the last seven adapter characters open the read
    (rs = 3, p = 0, L = 7) *)
Definition ex4_ad : adapter := mkAd Front [65;67;71;84;65;67;71;84;65;67] true false true 3 false.
Definition ex4_read : list Z := [84;65;67;71;84;65;67;71;71;84;84].
Example C02_nonvacuous_partial_front :
  uses_comparer ex4_ad = false /\ class_reversed (a_type ex4_ad) = false /\ stop_in_query (ad_cfg ex4_ad) = true /\ start_in_ref (ad_cfg ex4_ad) = true /\
  (forall t, 0 <= t < 7 ->
     loc_eqc (ad_cfg ex4_ad) (a_wq ex4_ad) (znth 0 (loc_s1 (ad_cfg ex4_ad) (a_wq ex4_ad) (a_seq ex4_ad)) (3 + t))
                                          (znth 0 (loc_s2 (ad_cfg ex4_ad) (a_wq ex4_ad) (ad_query ex4_ad ex4_read)) (0 + t)) = true) /\
  match_to ex3_thr ex4_ad ex4_read <> None.
Proof.
  split; [reflexivity|]. split; [reflexivity|]. split; [vm_compute; reflexivity|]. split; [vm_compute; reflexivity|]. split.
  - intros t Hr. assert (Hc : t = 0 \/ t = 1 \/ t = 2 \/ t = 3 \/ t = 4 \/ t = 5 \/ t = 6) by lia.
    destruct Hc as [->|[->|[->|[->|[->|[->| ->]]]]]]; vm_compute; reflexivity.
  - vm_compute. discriminate.
Qed.

(** ---- the cut-position clauses (Proofs/AlignCut.v, Proofs/AlignCutTail.v) *)

(** regular 5', regular 3' and 'anywhere' adapters (indels enabled or disabled, also with force_anywhere): if
    [p] is the leftmost error-free copy of the whole adapter, the reported match is that copy, or it ends before
    p + m and starts more than m/2 before p *)
Theorem C02_leftmost_copy : forall thr ad read p mt,
  (a_type ad = Front \/ a_type ad = Back \/ a_type ad = Anywhere) ->
  (forall L0, 0 <= thr L0) -> (forall L0, thr L0 <= thr (zlen (a_seq ad))) -> thr (zlen (a_seq ad)) <= zlen (a_seq ad) ->
  1 <= zlen (a_seq ad) -> a_min_overlap ad <= zlen (a_seq ad) -> 0 <= p -> p + zlen (a_seq ad) <= zlen read ->
  (forall t, 0 <= t < zlen (a_seq ad) ->
     loc_eqc (ad_cfg ad) (a_wq ad) (znth 0 (loc_s1 (ad_cfg ad) (a_wq ad) (a_seq ad)) t)
                                   (znth 0 (loc_s2 (ad_cfg ad) (a_wq ad) (ad_query ad read)) (p + t)) = true) ->
  (forall p', 0 <= p' < p ->
     ~ (forall t, 0 <= t < zlen (a_seq ad) ->
          loc_eqc (ad_cfg ad) (a_wq ad) (znth 0 (loc_s1 (ad_cfg ad) (a_wq ad) (a_seq ad)) t)
                                        (znth 0 (loc_s2 (ad_cfg ad) (a_wq ad) (ad_query ad read)) (p' + t)) = true)) ->
  match_to thr ad read = Some mt ->
  (rstart mt = p /\ rstop mt = p + zlen (a_seq ad) /\ astart mt = 0 /\ astop mt = zlen (a_seq ad) /\ merrors mt = 0) \/
  (0 <= rstart mt /\ rstart mt + zlen (a_seq ad) / 2 < p /\ rstop mt < p + zlen (a_seq ad) /\ astart mt = 0 /\ astop mt = zlen (a_seq ad)).
Proof. exact match_to_leftmost_copy. Qed.
Print Assumptions C02_leftmost_copy.

(** "A regular 3' adapter is cut at or before the leftmost error-free full copy (so no exact copy of it remains in
    the output)" *)
Theorem C02_back_cut_at_or_before : forall thr ad read p mt,
  a_type ad = Back ->
  (forall L0, 0 <= thr L0) -> (forall L0, thr L0 <= thr (zlen (a_seq ad))) -> thr (zlen (a_seq ad)) <= zlen (a_seq ad) ->
  1 <= zlen (a_seq ad) -> a_min_overlap ad <= zlen (a_seq ad) -> 0 <= p -> p + zlen (a_seq ad) <= zlen read ->
  (forall t, 0 <= t < zlen (a_seq ad) ->
     loc_eqc (ad_cfg ad) (a_wq ad) (znth 0 (loc_s1 (ad_cfg ad) (a_wq ad) (a_seq ad)) t)
                                   (znth 0 (loc_s2 (ad_cfg ad) (a_wq ad) (ad_query ad read)) (p + t)) = true) ->
  (forall p', 0 <= p' < p ->
     ~ (forall t, 0 <= t < zlen (a_seq ad) ->
          loc_eqc (ad_cfg ad) (a_wq ad) (znth 0 (loc_s1 (ad_cfg ad) (a_wq ad) (a_seq ad)) t)
                                        (znth 0 (loc_s2 (ad_cfg ad) (a_wq ad) (ad_query ad read)) (p' + t)) = true)) ->
  match_to thr ad read = Some mt ->
  rstart mt <= p /\
  forall q, 0 <= q -> q + zlen (a_seq ad) <= rstart mt ->
    ~ (forall t, 0 <= t < zlen (a_seq ad) ->
         loc_eqc (ad_cfg ad) (a_wq ad) (znth 0 (loc_s1 (ad_cfg ad) (a_wq ad) (a_seq ad)) t)
                                       (znth 0 (loc_s2 (ad_cfg ad) (a_wq ad) (ad_query ad read)) (q + t)) = true).
Proof. exact back_cut_at_or_before. Qed.
Print Assumptions C02_back_cut_at_or_before.

(** "a regular 5' adapter at or before the end of the leftmost copy" *)
Theorem C02_front_cut_at_or_before : forall thr ad read p mt,
  a_type ad = Front ->
  (forall L0, 0 <= thr L0) -> (forall L0, thr L0 <= thr (zlen (a_seq ad))) -> thr (zlen (a_seq ad)) <= zlen (a_seq ad) ->
  1 <= zlen (a_seq ad) -> a_min_overlap ad <= zlen (a_seq ad) -> 0 <= p -> p + zlen (a_seq ad) <= zlen read ->
  (forall t, 0 <= t < zlen (a_seq ad) ->
     loc_eqc (ad_cfg ad) (a_wq ad) (znth 0 (loc_s1 (ad_cfg ad) (a_wq ad) (a_seq ad)) t)
                                   (znth 0 (loc_s2 (ad_cfg ad) (a_wq ad) (ad_query ad read)) (p + t)) = true) ->
  (forall p', 0 <= p' < p ->
     ~ (forall t, 0 <= t < zlen (a_seq ad) ->
          loc_eqc (ad_cfg ad) (a_wq ad) (znth 0 (loc_s1 (ad_cfg ad) (a_wq ad) (a_seq ad)) t)
                                        (znth 0 (loc_s2 (ad_cfg ad) (a_wq ad) (ad_query ad read)) (p' + t)) = true)) ->
  match_to thr ad read = Some mt ->
  rstop mt <= p + zlen (a_seq ad).
Proof. exact front_cut_at_or_before. Qed.
Print Assumptions C02_front_cut_at_or_before.

(** "(at or after the end of the rightmost one with 'rightmost')": the match is the rightmost copy, or it starts
    behind p and ends more than m/2 behind p + m *)
Theorem C02_rightmost_copy : forall thr ad read p mt,
  a_type ad = RightmostFront -> a_force_anywhere ad = false ->
  (forall L0, 0 <= thr L0) -> (forall L0, thr L0 <= thr (zlen (a_seq ad))) -> thr (zlen (a_seq ad)) <= zlen (a_seq ad) ->
  1 <= zlen (a_seq ad) -> a_min_overlap ad <= zlen (a_seq ad) -> 0 <= p -> p + zlen (a_seq ad) <= zlen read ->
  (forall t, 0 <= t < zlen (a_seq ad) ->
     loc_eqc (ad_cfg ad) (a_wq ad) (znth 0 (loc_s1 (ad_cfg ad) (a_wq ad) (a_seq ad)) t)
                                   (znth 0 (loc_s2 (ad_cfg ad) (a_wq ad) read) (p + t)) = true) ->
  (forall p', p < p' -> p' + zlen (a_seq ad) <= zlen read ->
     ~ (forall t, 0 <= t < zlen (a_seq ad) ->
          loc_eqc (ad_cfg ad) (a_wq ad) (znth 0 (loc_s1 (ad_cfg ad) (a_wq ad) (a_seq ad)) t)
                                        (znth 0 (loc_s2 (ad_cfg ad) (a_wq ad) read) (p' + t)) = true)) ->
  match_to thr ad read = Some mt ->
  (rstart mt = p /\ rstop mt = p + zlen (a_seq ad) /\ astart mt = 0 /\ astop mt = zlen (a_seq ad) /\ merrors mt = 0) \/
  (p + zlen (a_seq ad) + zlen (a_seq ad) / 2 < rstop mt /\ rstop mt <= zlen read /\ p < rstart mt /\ astart mt = 0 /\ astop mt = zlen (a_seq ad)).
Proof. exact match_to_rightmost_copy. Qed.
Print Assumptions C02_rightmost_copy.

Theorem C02_rightmost_cut_at_or_after : forall thr ad read p mt,
  a_type ad = RightmostFront -> a_force_anywhere ad = false ->
  (forall L0, 0 <= thr L0) -> (forall L0, thr L0 <= thr (zlen (a_seq ad))) -> thr (zlen (a_seq ad)) <= zlen (a_seq ad) ->
  1 <= zlen (a_seq ad) -> a_min_overlap ad <= zlen (a_seq ad) -> 0 <= p -> p + zlen (a_seq ad) <= zlen read ->
  (forall t, 0 <= t < zlen (a_seq ad) ->
     loc_eqc (ad_cfg ad) (a_wq ad) (znth 0 (loc_s1 (ad_cfg ad) (a_wq ad) (a_seq ad)) t)
                                   (znth 0 (loc_s2 (ad_cfg ad) (a_wq ad) read) (p + t)) = true) ->
  (forall p', p < p' -> p' + zlen (a_seq ad) <= zlen read ->
     ~ (forall t, 0 <= t < zlen (a_seq ad) ->
          loc_eqc (ad_cfg ad) (a_wq ad) (znth 0 (loc_s1 (ad_cfg ad) (a_wq ad) (a_seq ad)) t)
                                        (znth 0 (loc_s2 (ad_cfg ad) (a_wq ad) read) (p' + t)) = true)) ->
  match_to thr ad read = Some mt ->
  p + zlen (a_seq ad) <= rstop mt.
Proof. exact rightmost_cut_at_or_after. Qed.
Print Assumptions C02_rightmost_cut_at_or_after.

(** "an error-free anchored adapter is removed exactly", indels enabled (the aligner is used; for indels disabled
    see C02_anchored_noindels_complete above): anchored 5' ... *)
Theorem C02_anchored5_exact : forall thr ad read mt,
  a_type ad = Prefix -> a_indels ad = true ->
  (forall L0, 0 <= thr L0) -> (forall L0, thr L0 <= thr (zlen (a_seq ad))) -> thr (zlen (a_seq ad)) <= zlen (a_seq ad) ->
  1 <= zlen (a_seq ad) -> a_min_overlap ad <= zlen (a_seq ad) -> zlen (a_seq ad) <= zlen read ->
  (forall t, 0 <= t < zlen (a_seq ad) ->
     loc_eqc (ad_cfg ad) (a_wq ad) (znth 0 (loc_s1 (ad_cfg ad) (a_wq ad) (a_seq ad)) t)
                                   (znth 0 (loc_s2 (ad_cfg ad) (a_wq ad) read) t) = true) ->
  match_to thr ad read = Some mt ->
  rstart mt = 0 /\ rstop mt = zlen (a_seq ad) /\ astart mt = 0 /\ astop mt = zlen (a_seq ad) /\ merrors mt = 0.
Proof. exact match_to_anchored5_exact. Qed.
Print Assumptions C02_anchored5_exact.

(** ... and anchored 3' *)
Theorem C02_anchored3_exact : forall thr ad read mt,
  a_type ad = Suffix -> a_indels ad = true ->
  0 <= thr (zlen (a_seq ad)) -> (forall L0, thr L0 <= thr (zlen (a_seq ad))) -> zlen (a_seq ad) <= zlen read ->
  (forall t, 0 <= t < zlen (a_seq ad) ->
     loc_eqc (ad_cfg ad) (a_wq ad) (znth 0 (loc_s1 (ad_cfg ad) (a_wq ad) (a_seq ad)) t)
                                   (znth 0 (loc_s2 (ad_cfg ad) (a_wq ad) read) (zlen read - zlen (a_seq ad) + t)) = true) ->
  match_to thr ad read = Some mt ->
  rstart mt = zlen read - zlen (a_seq ad) /\ rstop mt = zlen read /\ astart mt = 0 /\ astop mt = zlen (a_seq ad) /\ merrors mt = 0.
Proof. exact match_to_anchored3_exact. Qed.
Print Assumptions C02_anchored3_exact.

(** the cut-position theorems speak about match_to; what the adapter classes run is match_to behind its k-mer
    prefilter, and that is the same function (C07_no_change, restated here so that the chain is visible in one file) *)
Theorem C02_prefilter_is_transparent : forall thr ad read,
  thr 0 = 0 -> (forall i, 0 <= i < zlen (a_seq ad) -> thr i <= thr (i + 1) <= thr i + 1) ->
  (forall i, 1 <= i <= zlen (a_seq ad) -> thr i < i) -> (forall L, thr L <= thr (zlen (a_seq ad))) ->
  ascii (a_seq ad) -> ascii read -> 1 <= a_min_overlap ad -> zlen (a_seq ad) < INDEL_COST_OFF ->
  match_to_prefiltered thr ad read = match_to thr ad read.
Proof. exact prefilter_no_change. Qed.
Print Assumptions C02_prefilter_is_transparent.

(** non-vacuity of C02_leftmost_copy, second alternative: -a ACGTACGTAC (30%) on ACGTTCGAACGGACGTACGTAC.  The
    leftmost error-free copy is at 12; the match reported is [0, 10) with two errors, recorded before the copy's
    last column and starting more than 5 characters before 12 -- the read is cut at 0 <= 12 *)
Definition ex5_ad : adapter := mkAd Back [65;67;71;84;65;67;71;84;65;67] false false true 3 false.
Definition ex5_thr : Z -> Z := thr_of [0;0;0;0;1;1;1;2;2;2;3].
Definition ex5_read : list Z := [65;67;71;84;84;67;71;65;65;67;71;71;65;67;71;84;65;67;71;84;65;67].
Example C02_cut_instance_earlier_match :
  (forall L, 0 <= ex5_thr L) /\ (forall L, ex5_thr L <= ex5_thr (zlen (a_seq ex5_ad))) /\
  (forall t, 0 <= t < zlen (a_seq ex5_ad) ->
     loc_eqc (ad_cfg ex5_ad) (a_wq ex5_ad) (znth 0 (loc_s1 (ad_cfg ex5_ad) (a_wq ex5_ad) (a_seq ex5_ad)) t)
             (znth 0 (loc_s2 (ad_cfg ex5_ad) (a_wq ex5_ad) (ad_query ex5_ad ex5_read)) (12 + t)) = true) /\
  (forall p', 0 <= p' < 12 ->
     ~ (forall t, 0 <= t < zlen (a_seq ex5_ad) ->
          loc_eqc (ad_cfg ex5_ad) (a_wq ex5_ad) (znth 0 (loc_s1 (ad_cfg ex5_ad) (a_wq ex5_ad) (a_seq ex5_ad)) t)
                  (znth 0 (loc_s2 (ad_cfg ex5_ad) (a_wq ex5_ad) (ad_query ex5_ad ex5_read)) (p' + t)) = true)) /\
  match_to ex5_thr ex5_ad ex5_read = Some (mkM 0 10 0 10 6 2 1).
Proof.
  split; [intros L; apply (thr_of_bounds [0;0;0;0;1;1;1;2;2;2;3] 0 3); [repeat constructor; lia | lia]|].
  split; [intros L; change (ex5_thr (zlen (a_seq ex5_ad))) with 3; apply (thr_of_bounds [0;0;0;0;1;1;1;2;2;2;3] 0 3); [repeat constructor; lia | lia]|].
  split.
  { intros t Hr. change (zlen (a_seq ex5_ad)) with 10 in Hr.
    assert (Hc : t = 0 \/ t = 1 \/ t = 2 \/ t = 3 \/ t = 4 \/ t = 5 \/ t = 6 \/ t = 7 \/ t = 8 \/ t = 9) by lia.
    destruct Hc as [->|[->|[->|[->|[->|[->|[->|[->|[->| ->]]]]]]]]]; vm_compute; reflexivity. }
  split; [|vm_compute; reflexivity].
  intros p' Hp' Hall. change (zlen (a_seq ex5_ad)) with 10 in Hall.
  assert (Hc : p' = 0 \/ p' = 1 \/ p' = 2 \/ p' = 3 \/ p' = 4 \/ p' = 5 \/ p' = 6 \/ p' = 7 \/ p' = 8 \/ p' = 9 \/ p' = 10 \/ p' = 11) by lia.
  destruct Hc as [->|[->|[->|[->|[->|[->|[->|[->|[->|[->|[->| ->]]]]]]]]]]];
    first [ pose proof (Hall 0 ltac:(lia)) as Hx; vm_compute in Hx; discriminate
          | pose proof (Hall 1 ltac:(lia)) as Hx; vm_compute in Hx; discriminate
          | pose proof (Hall 2 ltac:(lia)) as Hx; vm_compute in Hx; discriminate
          | pose proof (Hall 3 ltac:(lia)) as Hx; vm_compute in Hx; discriminate
          | pose proof (Hall 4 ltac:(lia)) as Hx; vm_compute in Hx; discriminate ].
Qed.
