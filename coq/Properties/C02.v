(** C02 -- admissible adapter occurrences are found; exact copies never survive.
    Property theorems only; every proof is [exact <lemma>].

    Proved here, for the comparers (anchored 5'/3' adapters with indels disabled): *every*
    occurrence at the anchored end whose Hamming distance is within the tolerance is reported,
    with exactly that distance and removing exactly min(|adapter|,|read|) characters; in
    particular an error-free anchored adapter is removed exactly.  Together with
    C07_comparers_unfiltered this holds for match_to as the user gets it (no prefilter there).

    Also proved (Proofs/AlignComplete.v): for regular 5', regular 3' and 'anywhere' adapters (indels
    enabled or disabled), an error-free copy of the whole adapter anywhere in the read is always found by
    the aligner (Aligner.locate reports a match): the DP cells on the diagonal of the copy are tracked
    exactly -- cost 0, so the Ukkonen cut-off cannot drop them -- up to the column where the copy ends,
    where the candidate is accepted unless a candidate is recorded already.

    NOT proved here (C02 is partial in this respect): completeness of the banded DP for occurrences
    WITH errors and for partial occurrences, the clauses for non-internal and anchored adapters with
    indels, the three cut-position clauses, and that the k-mer prefilter lets such reads through (C07).
    Those rest on the correspondence (model = implementation for prefiltered match_to of all eight
    classes) and on the planted-occurrence / brute-force / cut-position oracle run against the
    implementation. *)
From Coq Require Import ZArith List Bool Lia.
From CV Require Import Generated.Scores Model.Align Model.Adapters Model.Kmer Proofs.AdapterProofs Proofs.KmerProofs Proofs.AlignDist Proofs.AlignComplete.
Import ListNotations.
Open Scope Z_scope.

Theorem C02_anchored_noindels_complete : forall wref wq max_k ov ref query,
  let '(s1, s2) := translate_pair wref wq ref query in
  let e := mismatches (eqc_of wref wq) s1 s2 in
  e <= max_k -> ov <= Z.min (zlen ref) (zlen query) ->
  prefix_locate wref wq max_k ov ref query =
    Some (0, Z.min (zlen ref) (zlen query), 0, Z.min (zlen ref) (zlen query),
          (Z.min (zlen ref) (zlen query) - e) * MATCH_SCORE + e * MISMATCH_SCORE, e).
Proof. exact prefix_locate_complete. Qed.
Print Assumptions C02_anchored_noindels_complete.

Theorem C02_anchored_noindels_unfiltered : forall thr ad read,
  uses_comparer ad = true -> match_to_prefiltered thr ad read = match_to thr ad read.
Proof. exact comparer_no_prefilter. Qed.
Print Assumptions C02_anchored_noindels_unfiltered.

(** regular 5', regular 3' and 'anywhere' adapters, indels enabled or disabled: an error-free copy of
    the whole adapter anywhere in the read is always reported by the aligner *)
Theorem C02_full_copy_found : forall thr ad read p,
  match a_type ad with Front | Back | Anywhere => True | _ => False end ->
  1 <= zlen (a_seq ad) -> a_min_overlap ad <= zlen (a_seq ad) ->
  (forall L, 0 <= thr L) -> (forall L, thr L <= thr (zlen (a_seq ad))) -> thr (zlen (a_seq ad)) <= zlen (a_seq ad) ->
  0 <= p -> p + zlen (a_seq ad) <= zlen read ->
  (forall t, 0 <= t < zlen (a_seq ad) ->
     loc_eqc (ad_cfg ad) (a_wq ad) (znth 0 (loc_s1 (ad_cfg ad) (a_wq ad) (a_seq ad)) t)
                                   (znth 0 (loc_s2 (ad_cfg ad) (a_wq ad) (ad_query ad read)) (p + t)) = true) ->
  match_to thr ad read <> None.
Proof. exact match_to_full_copy. Qed.
Print Assumptions C02_full_copy_found.

(** ... at the level of Aligner.locate: every flag set that may start and stop anywhere in the query *)
Theorem C02_locate_full_copy : forall thr cfg wq ref query p,
  1 <= indel_cost cfg -> start_in_query cfg = true -> stop_in_query cfg = true ->
  1 <= zlen ref -> min_overlap cfg <= zlen ref ->
  (forall L, 0 <= thr L) -> (forall L, thr L <= thr (zlen ref)) -> thr (zlen ref) <= zlen ref ->
  0 <= p -> p + zlen ref <= zlen query ->
  (forall t, 0 <= t < zlen ref -> loc_eqc cfg wq (znth 0 (loc_s1 cfg wq ref) t) (znth 0 (loc_s2 cfg wq query) (p + t)) = true) ->
  locate thr cfg wq ref query <> None.
Proof. exact locate_full_copy. Qed.
Print Assumptions C02_locate_full_copy.

(** non-vacuity: ^ACGT against ACGTTT with zero errors allowed is removed exactly *)
Example C02_exact_anchored :
  match_to_prefiltered (thr_of [0;0;0;0;0]) (mkAd Prefix [65;67;71;84] false false false 4 false) [65;67;71;84;84;84]
  = Some (mkM 0 4 0 4 4 0 0).
Proof. vm_compute. reflexivity. Qed.

(** non-vacuity of C02_full_copy_found: 3' adapter ACGTAC (rate 0.2), read TTACGTACTT, copy at 2 *)
Definition ex2_ad : adapter := mkAd Back [65;67;71;84;65;67] true false true 3 false.
Definition ex2_thr : Z -> Z := thr_of [0;0;0;0;0;1;1].
Definition ex2_read : list Z := [84;84;65;67;71;84;65;67;84;84].
Example C02_nonvacuous_copy :
  (forall L, 0 <= ex2_thr L) /\ (forall L, ex2_thr L <= ex2_thr (zlen (a_seq ex2_ad))) /\
  (forall t, 0 <= t < zlen (a_seq ex2_ad) ->
     loc_eqc (ad_cfg ex2_ad) (a_wq ex2_ad) (znth 0 (loc_s1 (ad_cfg ex2_ad) (a_wq ex2_ad) (a_seq ex2_ad)) t)
             (znth 0 (loc_s2 (ad_cfg ex2_ad) (a_wq ex2_ad) (ad_query ex2_ad ex2_read)) (2 + t)) = true) /\
  match_to ex2_thr ex2_ad ex2_read <> None.
Proof.
  assert (Ht : forall L, 0 <= ex2_thr L <= 1).
  { intros L. unfold ex2_thr, thr_of, znth. destruct (L <? 0); [vm_compute; split; congruence|].
    destruct (Z.to_nat L) as [|[|[|[|[|[|[|k]]]]]]]; try (vm_compute; split; congruence). destruct k; vm_compute; split; congruence. }
  split; [intros L; apply Ht|]. split; [intros L; destruct (Ht L) as [_ H]; exact H|]. split.
  - intros t Hr. change (zlen (a_seq ex2_ad)) with 6 in Hr.
    assert (Hc : t = 0 \/ t = 1 \/ t = 2 \/ t = 3 \/ t = 4 \/ t = 5) by lia.
    destruct Hc as [->|[->|[->|[->|[->| ->]]]]]; vm_compute; reflexivity.
  - vm_compute. discriminate.
Qed.
