(** C04 -- each read is written once or counted as filtered once; totals add up.
    Property theorems only.  Model: Model/Pipeline.v, [run] = SingleEndPipeline.process_reads +
    Statistics.collect (counts only).  Paired-end: Properties/C05.v. *)
From Coq Require Import ZArith List Bool.
From CV Require Import Model.Base Model.Pipeline Model.PipelineRun Proofs.PipelineProofs.
Import ListNotations.
Open Scope Z_scope.

(** input = written + sum over all filter categories; input = number of reads *)
Theorem C04_totals : forall order forder o reads,
  let rep := run order forder o reads in
  rep_n rep = zlen reads /\ rep_n rep = rep_written rep + total_filtered (rep_filtered rep).
Proof. exact totals_add_up. Qed.
Print Assumptions C04_totals.

(** every read has exactly one fate: written to one file, or counted in exactly one filter category *)
Theorem C04_one_fate : forall out : outcome,
  (is_written out = true /\ out_cat out = None /\ exists d, out_file out = Some d) \/
  (is_written out = false /\ exists c, out_cat out = Some c).
Proof. exact one_fate. Qed.
Print Assumptions C04_one_fate.

(** each output file holds exactly the reads routed to it, once each, in input order *)
Theorem C04_files : forall order forder o reads d,
  records_of d (rep_files (run order forder o reads)) =
  map out_read (filter (fun out => match out_file out with Some d' => d' =? d | None => false end)
                       (outcomes order forder o reads)).
Proof. exact files_are_subsequences. Qed.
Print Assumptions C04_files.

(** every reported figure is the sum over the individual reads *)
Theorem C04_sums : forall outs rep,
  let rep' := fold_report outs rep in
  rep_n rep' = rep_n rep + zlen outs /\
  rep_total_bp rep' = rep_total_bp rep + zsum_map out_in_len outs /\
  rep_written rep' = rep_written rep + zsum_map (fun o => b2z (is_written o)) outs /\
  rep_written_bp rep' = rep_written_bp rep + zsum_map (fun o => if is_written o then rlen (out_read o) else 0) outs /\
  rep_with_adapters rep' = rep_with_adapters rep + zsum_map (fun o => match out_matches o with [] => 0 | _ => 1 end) outs /\
  rep_rc rep' = rep_rc rep + zsum_map (fun o => match out_is_rc o with Some true => 1 | _ => 0 end) outs /\
  rep_qtrimmed rep' = rep_qtrimmed rep + zsum_map out_qtrimmed outs /\
  rep_polya rep' = rep_polya rep + zsum_map (fun o => match out_polya o with Some p => p | None => 0 end) outs.
Proof. exact fold_report_counts. Qed.
Print Assumptions C04_sums.

(** per category: the counter equals the number of reads that met that fate *)
Theorem C04_category : forall c outs rep,
  count_of c (rep_filtered (fold_report outs rep)) =
  count_of c (rep_filtered rep) + zsum_map (fun o => match out_cat o with Some c' => if c' =? c then 1 else 0 | None => 0 end) outs.
Proof. exact fold_report_filtered. Qed.
Print Assumptions C04_category.

Theorem C04_run_is_fold : forall order forder o reads,
  run order forder o reads = fold_report (outcomes order forder o reads) empty_report.
Proof. exact run_as_fold. Qed.
Print Assumptions C04_run_is_fold.
