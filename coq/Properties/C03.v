(** C03 -- output reads are aligned slices of the input; qualities stay in step.
    Property theorems only; every proof is [exact <lemma>].  Model: Model/Pipeline.v (single-end
    modifier chain in the order regenerated from cli.py).

    [sub_read f r' base]: sequence of r' = base.sequence[k:k+n], qualities of r' = the same slice
    of base's qualities mapped pointwise through f; [qmap_ok o f]: f is the identity, or (only if
    --zero-cap is given) raises values below the quality base to the base; [out_rel]: base is the
    input read, or its reverse complement exactly when --revcomp chose that orientation.
    Pairs: C03_paired_slice below (Proofs/PairedSlice.v); further paired-end statements: Properties/C05.v. *)
From Coq Require Import ZArith List Bool.
From CV Require Import Model.Base Model.Align Model.Adapters Model.Qualtrim Model.Pipeline Model.PipelineRun
  Proofs.StageProofs Proofs.ActionProofs Proofs.ModifyProofs Proofs.OrderProofs Proofs.AdapterProofs Proofs.PairedSlice.
From CV Require Import Model.Paired.
Import ListNotations.
Open Scope Z_scope.

(** actions trim and none, every option set: the written read is a contiguous slice, qualities in step, equal lengths *)
Theorem C03_slice : forall o r,
  Forall wf_padapter (o_adapters o) -> wf_read r -> (o_action o = ATrim \/ o_action o = ANone) ->
  let out := process_cli o r in
  wf_read (out_read out) /\ out_rel o r (out_read out) (out_is_rc out).
Proof. exact cli_output_is_slice. Qed.
Print Assumptions C03_slice.

(** every stage except the adapter stage: same slice of sequence and qualities, or names only, or zero-cap only *)
Theorem C03_other_stages : forall o st r i,
  st <> StAdapters -> wf_read r ->
  let r' := fst (apply_stage o st (r, i)) in
  wf_read r' /\ (sub_read (fun q => q) r' r \/ (st = StZeroCap /\ sub_read (capf (o_qbase o)) r' r)).
Proof. exact nonadapter_stage. Qed.
Print Assumptions C03_other_stages.

Theorem C03_zerocap : forall base q, (q < base -> capf base q = base) /\ (base <= q -> capf base q = q).
Proof. exact capf_spec. Qed.
Print Assumptions C03_zerocap.

(** the adapter stage, all actions: [a,b) = composition of the per-round intervals lies inside the read;
    trim = that slice; none = unchanged; mask / lowercase keep the length and the qualities and write
    N / lower case exactly outside [a,b) (lowercase upper-cases the rest) *)
Theorem C03_actions : forall ads times act r0 res ms,
  Forall wf_padapter ads -> wf_read r0 ->
  match_and_trim ads times act r0 = (res, ms) -> ms <> [] ->
  let r := match act with ALowercase => mkR (rname r0) (upper (rseq r0)) (rqual r0) | _ => r0 end in
  let a := fst (remainder (map m_remainder ms)) in
  let b := snd (remainder (map m_remainder ms)) in
  iv_ok (rlen r0) (a, b) /\
  match act with
  | ATrim => read_slice res r a b
  | ANone => res = r0
  | AMask => rname res = rname r0 /\ rqual res = rqual r0 /\
             rseq res = repeat_z 78 a ++ zslice (rseq r0) a b ++ repeat_z 78 (rlen r0 - b) /\ rlen res = rlen r0
  | ALowercase => rname res = rname r0 /\ rqual res = rqual r0 /\
             rseq res = lower (zslice (upper (rseq r0)) 0 a) ++ upper (zslice (upper (rseq r0)) a b)
                        ++ lower (zslice (upper (rseq r0)) b (rlen r0)) /\ rlen res = rlen r0
  | ARetain | ACrop => True
  end.
Proof. exact match_and_trim_actions. Qed.
Print Assumptions C03_actions.

(** retain and crop are Python slices of the read the stage received (so: contiguous, qualities in step) *)
Theorem C03_pyslice_in_step : forall lo hi r, wf_read r -> wf_read (rslice lo hi r) /\ sub_read (fun q => q) (rslice lo hi r) r.
Proof. exact (fun lo hi r H => conj (wf_rslice lo hi r H) (rslice_sub_read lo hi r H)). Qed.
Print Assumptions C03_pyslice_in_step.

(** pairs, actions trim and none, every option set and every order of the option kinds: both mates that leave
    the paired modifier chain are well-formed (sequence and qualities of equal length) and each is a contiguous
    slice, qualities in step (zero-capped at most), of its own input mate -- or, only with --revcomp, when the
    paired reverse-complement step swapped the pair, of the other input mate.  The adapter stage is whichever of
    the three paired variants applies: --pair-adapters, paired --revcomp, or one cutter per mate. *)
Theorem C03_paired_slice : forall order p r1 r2,
  Forall wf_padapter (o_adapters (po_base p)) -> Forall wf_padapter (po_adapters2 p) ->
  (o_action (po_base p) = ATrim \/ o_action (po_base p) = ANone) -> wf_read r1 -> wf_read r2 ->
  let s := pmodify order p r1 r2 in
  let s1 := fst (fst s) in
  let s2 := fst (snd s) in
  wf_read s1 /\ wf_read s2 /\ exists f1 f2, qmap_ok (po_base p) f1 /\ qmap_ok (po_base p) f2 /\
    ((sub_read f1 s1 r1 /\ sub_read f2 s2 r2) \/
     (o_revcomp (po_base p) = true /\ sub_read f1 s1 r2 /\ sub_read f2 s2 r1)).
Proof. exact pmodify_slices. Qed.
Print Assumptions C03_paired_slice.

(** non-vacuity: -u 2 -a ACGT on a read with qualities *)
Definition ex_o : options :=
  mkO [2] None None 33 [PSingle [97] (mkAd Back [65;67;71;84] false false true 3 false) [0;0;0;0;0]] 1 ATrim false false false
      None false None [] [] [] false None None None [] false false false false false false false false.
Example C03_nonvacuous :
  Forall wf_padapter (o_adapters ex_o) /\
  out_read (process_cli ex_o (mkR [114] [84;84;71;71;65;67;71;84;65] (Some [33;34;35;36;37;38;39;40;41])))
  = mkR [114] [71;71] (Some [35;36]).
Proof. split; [repeat constructor; vm_compute; intuition congruence | vm_compute; reflexivity]. Qed.
