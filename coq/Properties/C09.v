(** C09 -- best-adapter choice, repeated rounds and linked adapters follow the rules.
    Property theorems only.  Model: Model/Pipeline.v (MultipleAdapters.match_to, AdapterCutter.match_and_trim,
    LinkedAdapter.match_to), no index involved. *)
From Coq Require Import ZArith List Bool.
From CV Require Import Model.Base Model.Align Model.Adapters Model.Kmer Model.Pipeline
  Proofs.StageProofs Proofs.ActionProofs.
Import ListNotations.
Open Scope Z_scope.

(** the applied match is the first candidate (in the order the adapters were given) that no other
    candidate beats: highest score, ties to fewer errors, then to the earlier adapter *)
Theorem C09_best : forall ads s,
  match best_match ads s with
  | None => forall j, cand ads s j = None
  | Some b => exists ib, cand ads s ib = Some b /\
                         (forall j m', cand ads s j = Some m' -> not_worse b m') /\
                         (forall j m', (j < ib)%nat -> cand ads s j = Some m' -> beats b m')
  end.
Proof. exact best_match_spec. Qed.
Print Assumptions C09_best.

(** rounds: round i+1 searches the read trimmed by round i, the search stops at the first miss or at
    --times; the part that remains is one interval of the original read, [remainder] of the per-round
    intervals, and it is that interval that every action is applied to once (C03_actions) *)
Theorem C09_rounds : forall ads, Forall wf_padapter ads -> forall times r r' ms,
  wf_read r -> rounds ads times r = (r', ms) ->
  Forall (fun m => (m_idx m < length ads)%nat) ms /\
  match ms with
  | [] => r' = r
  | _ => iv_ok (rlen r) (remainder (map m_remainder ms)) /\
         read_slice r' r (fst (remainder (map m_remainder ms))) (snd (remainder (map m_remainder ms)))
  end.
Proof. exact rounds_spec. Qed.
Print Assumptions C09_rounds.

(** every applied match lies inside the sequence it was found in (C01 for each round) *)
Theorem C09_match_in_range : forall ads s m,
  Forall wf_padapter ads -> best_match ads s = Some m -> m_ok (zlen s) m /\ (m_idx m < length ads)%nat.
Proof. exact best_match_ok. Qed.
Print Assumptions C09_match_in_range.

(** linked adapters: the 3' part is searched in what remains after the 5' part; no match (read
    untouched, not counted) iff a required part is missing or nothing was found *)
Theorem C09_linked : forall idx nm fa ft ba bt freq breq s,
  let fm := single_match fa ft s in
  let rest := match fm with Some x => s_trim_seq x s | None => s end in
  let bm := single_match ba bt rest in
  adapter_match idx (PLinked nm fa ft ba bt freq breq) s =
    if (match fm with None => freq | Some _ => false end) then None
    else if (match bm with None => breq | Some _ => false end) then None
    else match fm, bm with
         | None, None => None
         | _, _ => Some (MLinked idx fm bm)
         end.
Proof. exact linked_spec. Qed.
Print Assumptions C09_linked.

Theorem C09_no_match_untouched : forall ads times act r0,
  Forall wf_padapter ads -> wf_read r0 ->
  snd (match_and_trim ads times act r0) = [] ->
  fst (match_and_trim ads times act r0) =
    match act with ALowercase => mkR (rname r0) (upper (rseq r0)) (rqual r0) | _ => r0 end.
Proof. exact match_and_trim_no_match. Qed.
Print Assumptions C09_no_match_untouched.
