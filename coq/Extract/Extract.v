(** Extraction of the executable model to OCaml.  Only ExtrOcamlBasic is used:
    bool/option/unit/list/prod/sumbool/sumor map to OCaml's own types, Z/positive/N/nat stay
    the extracted inductive types.  No Extract Constant.  *)
Require Extraction.
Require Import ExtrOcamlBasic.
From CV Require Import Model.Qualtrim Model.Align Model.Adapters Model.Kmer Model.ShiftAnd Model.Pipeline Model.Paired Model.PipelineRun Model.Parser Model.Runner Model.RunnerInst Model.Format Model.Index.
Extraction Blacklist List String Int.
Set Extraction KeepSingleton.
Extraction "model.ml"
  quality_trim_index nextseq_trim_index poly_a_trim_index trim_n n_count
  quality_trimmer nextseq_trimmer
  locate thr_of match_to prefix_locate suffix_locate mkCfg mkAd
  positions_and_kmers kmers_present kmers_present_sa match_to_prefiltered prefilter_passes finder_of
  run_cli process_cli best_match match_and_trim revcomp_stage
  make_from_spec mkG
  prun_cli process_pair_cli mkPO
  validate_trace detect_format output_format
  index_match index_lookup index_lengths mkIad.
