(* Line-oriented driver for the extracted model.
   Input line:   <cmd> <arg>|<arg>|...     each arg = space separated integers
   Output line:  space separated integers, '|' between components, or "None" *)
open Model

let rec pos_of_int n = if n = 1 then XH else if n land 1 = 0 then XO (pos_of_int (n lsr 1)) else XI (pos_of_int (n lsr 1))
let z_of_int n = if n = 0 then Z0 else if n > 0 then Zpos (pos_of_int n) else Zneg (pos_of_int (-n))
let rec int_of_pos = function XH -> 1 | XO p -> 2 * int_of_pos p | XI p -> 2 * int_of_pos p + 1
let int_of_z = function Z0 -> 0 | Zpos p -> int_of_pos p | Zneg p -> - (int_of_pos p)

let ints s = List.filter (fun x -> x <> "") (String.split_on_char ' ' s) |> List.map int_of_string
let zl s = List.map z_of_int (ints s)
let z1 s = match ints s with [x] -> z_of_int x | _ -> failwith ("scalar expected: " ^ s)
let b1 s = match ints s with [x] -> x <> 0 | _ -> failwith ("bool expected: " ^ s)
let sz z = string_of_int (int_of_z z)
let szl l = String.concat " " (List.map sz l)
let sb b = if b then "1" else "0"

let s6 = function None -> "None" | Some (((((a, b), c), d), e), f) -> String.concat " " (List.map sz [a; b; c; d; e; f])
let atype_of = function 0 -> Front | 1 -> RightmostFront | 2 -> Back | 3 -> Anywhere | 4 -> NonInternalFront
  | 5 -> NonInternalBack | 6 -> Prefix | 7 -> Suffix | _ -> failwith "adapter type"
let adapter_of (a : string array) =
  let f = Array.of_list (ints a.(2)) in
  { a_type = atype_of (List.hd (ints a.(0))); a_seq = zl a.(1); a_wref = f.(0) <> 0; a_wq = f.(1) <> 0;
    a_indels = f.(2) <> 0; a_min_overlap = z1 a.(3); a_force_anywhere = f.(3) <> 0 }

let run cmd (a : string array) : string =
  match cmd with
  | "qtrim" -> let (s, e) = quality_trim_index (zl a.(0)) (z1 a.(1)) (z1 a.(2)) (z1 a.(3)) in sz s ^ " " ^ sz e
  | "nextseq" -> sz (nextseq_trim_index (zl a.(0)) (zl a.(1)) (z1 a.(2)) (z1 a.(3)))
  | "polya" -> sz (poly_a_trim_index (zl a.(0)) (b1 a.(1)))
  | "trimn" -> szl (trim_n (zl a.(0)))
  | "ncount" -> sz (n_count (zl a.(0)))
  | "qtrimmer" -> let ((s, q), t) = quality_trimmer (z1 a.(2)) (z1 a.(3)) (z1 a.(4)) (zl a.(0), zl a.(1)) in szl s ^ "|" ^ szl q ^ "|" ^ sz t
  | "nstrimmer" -> let ((s, q), t) = nextseq_trimmer (z1 a.(2)) (z1 a.(3)) (zl a.(0), zl a.(1)) in szl s ^ "|" ^ szl q ^ "|" ^ sz t
  (* locate ref|query|thr table|sir siq stir stiq wref wq|indel_cost|min_overlap *)
  | "locate" ->
      let f = Array.of_list (ints a.(3)) in
      let cfg = { start_in_ref = f.(0) <> 0; start_in_query = f.(1) <> 0; stop_in_ref = f.(2) <> 0; stop_in_query = f.(3) <> 0;
                  wildcard_ref = f.(4) <> 0; indel_cost = z1 a.(4); min_overlap = z1 a.(5) } in
      s6 (locate (thr_of (zl a.(2))) cfg (f.(5) <> 0) (zl a.(0)) (zl a.(1)))
  (* matchto type|seq|wref wq indels force|min_overlap|thr table|read *)
  | "matchto" ->
      let ad = adapter_of a in
      (match match_to (thr_of (zl a.(4))) ad (zl a.(5)) with
       | None -> "None"
       | Some m -> String.concat " " (List.map sz [m.astart; m.astop; m.rstart; m.rstop; m.mscore; m.merrors; m.mside]))
  | "matchtopf" ->
      let ad = adapter_of a in
      (match match_to_prefiltered (thr_of (zl a.(4))) ad (zl a.(5)) with
       | None -> "None"
       | Some m -> String.concat " " (List.map sz [m.astart; m.astop; m.rstart; m.rstop; m.mscore; m.merrors; m.mside]))
  | "prefilter" -> let ad = adapter_of a in sb (prefilter_passes (thr_of (zl a.(4))) ad (zl a.(5)))
  (* kmertable seq|min_overlap|thr|back front internal indels  -> sorted? no: printed in model order, canonicalised by the harness *)
  | "kmertable" ->
      let f = Array.of_list (ints a.(3)) in
      let t = positions_and_kmers (thr_of (zl a.(2))) (zl a.(0)) (z1 a.(1)) (f.(0) <> 0) (f.(1) <> 0) (f.(2) <> 0) (f.(3) <> 0) in
      String.concat ";" (List.map (fun ((k, st), sp) -> szl k ^ "," ^ sz st ^ "," ^ (match sp with None -> "N" | Some s -> sz s)) t)
  (* kpresent wref wq|table as in kmertable output|seq *)
  | "kpresent" ->
      let f = Array.of_list (ints a.(0)) in
      let parse_t s = match String.split_on_char ',' s with
        | [k; st; sp] -> ((zl k, z1 st), (if String.trim sp = "N" then None else Some (z1 sp)))
        | _ -> failwith "triple" in
      let tab = if String.trim a.(1) = "" then [] else List.map parse_t (String.split_on_char ';' a.(1)) in
      sb (kmers_present (f.(0) <> 0) (f.(1) <> 0) tab (zl a.(2)))
  | _ -> failwith ("unknown command " ^ cmd)

let () =
  try
    while true do
      let line = input_line stdin in
      let line = String.trim line in
      if line <> "" then begin
        let (cmd, rest) =
          match String.index_opt line ' ' with
          | None -> (line, "")
          | Some i -> (String.sub line 0 i, String.sub line (i + 1) (String.length line - i - 1)) in
        let args = Array.of_list (String.split_on_char '|' rest) in
        let out = try run cmd args with
          | Failure m -> "ERROR " ^ m
          | Invalid_argument m -> "ERROR " ^ m in
        print_string out; print_newline ()
      end
    done
  with End_of_file -> ()
