(* Line-oriented driver for the extracted model.
   Input line:   <cmd> <arg>|<arg>|...     each arg = space separated integers
   Output line:  space separated integers, '|' between components, or "None" *)
open Model

let rec pos_of_int n = if n = 1 then XH else if n land 1 = 0 then XO (pos_of_int (n lsr 1)) else XI (pos_of_int (n lsr 1))
let z_of_int n = if n = 0 then Z0 else if n > 0 then Zpos (pos_of_int n) else Zneg (pos_of_int (-n))
let rec int_of_pos = function XH -> 1 | XO p -> 2 * int_of_pos p | XI p -> 2 * int_of_pos p + 1
let int_of_z = function Z0 -> 0 | Zpos p -> int_of_pos p | Zneg p -> - (int_of_pos p)

let ints s = List.filter (fun x -> x <> "") (String.split_on_char ' ' s) |> List.map int_of_string
let zl s = List.map z_of_int (ints s)
let z1 s = match ints s with [x] -> z_of_int x | _ -> failwith ("scalar expected: " ^ s)
let b1 s = match ints s with [x] -> x <> 0 | _ -> failwith ("bool expected: " ^ s)
let sz z = string_of_int (int_of_z z)
let szl l = String.concat " " (List.map sz l)
let sb b = if b then "1" else "0"

let s6 = function None -> "None" | Some (((((a, b), c), d), e), f) -> String.concat " " (List.map sz [a; b; c; d; e; f])
let atype_of = function 0 -> Front | 1 -> RightmostFront | 2 -> Back | 3 -> Anywhere | 4 -> NonInternalFront
  | 5 -> NonInternalBack | 6 -> Prefix | 7 -> Suffix | _ -> failwith "adapter type"
let adapter_of (a : string array) =
  let f = Array.of_list (ints a.(2)) in
  { a_type = atype_of (List.hd (ints a.(0))); a_seq = zl a.(1); a_wref = f.(0) <> 0; a_wq = f.(1) <> 0;
    a_indels = f.(2) <> 0; a_min_overlap = z1 a.(3); a_force_anywhere = f.(3) <> 0 }

(* ---- pipeline configuration syntax (see harness/sysutil.py: model_line) *)
let split c s = if String.trim s = "" then [] else String.split_on_char c s
let opt_z s = match ints s with [] -> None | [x] -> Some (z_of_int x) | _ -> failwith "opt int"
let single_of (f : string array) (o : int) =
  (* f.(o) type, f.(o+1) seq, f.(o+2) "wref wq indels force", f.(o+3) minov, f.(o+4) thr *)
  let fl = Array.of_list (ints f.(o + 2)) in
  ({ a_type = atype_of (List.hd (ints f.(o))); a_seq = zl f.(o + 1); a_wref = fl.(0) <> 0; a_wq = fl.(1) <> 0;
     a_indels = fl.(2) <> 0; a_min_overlap = z1 f.(o + 3); a_force_anywhere = fl.(3) <> 0 }, zl f.(o + 4))
let padapter_of s =
  let f = Array.of_list (String.split_on_char ',' s) in
  match String.trim f.(0) with
  | "S" -> let (ad, thr) = single_of f 2 in PSingle (zl f.(1), ad, thr)
  | "L" -> let rq = Array.of_list (ints f.(2)) in
           let (fa, ft) = single_of f 3 in let (ba, bt) = single_of f 8 in
           PLinked (zl f.(1), fa, ft, ba, bt, rq.(0) <> 0, rq.(1) <> 0)
  | _ -> failwith "adapter kind"
let read_of s =
  match String.split_on_char ',' s with
  | [n; sq; q] -> { rname = zl n; rseq = zl sq; rqual = (if String.trim q = "-" then None else Some (zl q)) }
  | _ -> failwith "read"
let action_of = function 0 -> ATrim | 1 -> AMask | 2 -> ALowercase | 3 -> ARetain | 4 -> ACrop | 5 -> ANone | _ -> failwith "action"
let rec nat_of_int n = if n <= 0 then O else S (nat_of_int (n - 1))
let rec int_of_nat = function O -> 0 | S n -> 1 + int_of_nat n
let options_of (a : string array) =
  let fl = Array.of_list (ints a.(7)) in
  let b i = fl.(i) <> 0 in
  { o_cuts = zl a.(0); o_nextseq = opt_z a.(1);
    o_qcut = (match ints a.(2) with [] -> None | [x; y] -> Some (z_of_int x, z_of_int y) | _ -> failwith "qcut");
    o_qbase = z1 a.(3); o_adapters = List.map padapter_of (split ';' a.(4)); o_times = nat_of_int (List.hd (ints a.(5)));
    o_action = action_of (List.hd (ints a.(6))); o_revcomp = b 0; o_poly_a = b 1; o_poly_t = (Array.length fl > 12 && b 12); o_length = opt_z a.(8); o_trim_n = b 2;
    o_length_tag = (match ints a.(9) with [] -> None | l -> Some (List.map z_of_int l));
    o_strip_suffix = List.map zl (split ';' a.(10)); o_prefix = zl a.(11); o_suffix = zl a.(12); o_zero_cap = b 3;
    o_min_len = opt_z a.(13); o_max_len = opt_z a.(14); o_max_n = opt_z a.(15); o_float_filters = [];
    o_casava = b 4; o_discard_trimmed = b 5; o_discard_untrimmed = b 6; o_untrimmed_output = b 7;
    o_too_short_output = b 8; o_too_long_output = b 9; o_demux = b 10; o_info_file = b 11 }
let s_read r = szl r.rname ^ "," ^ szl r.rseq ^ "," ^ (match r.rqual with None -> "-" | Some q -> szl q)
let s_field = function FS s -> "s" ^ szl s | FI n -> "i" ^ sz n
let s_event e = String.concat " " [string_of_int (int_of_nat e.ev_idx); sz e.ev_end; sz e.ev_len; sz e.ev_errors; sz e.ev_adj; sb e.ev_rc; sb e.ev_first]
let s_report rep =
  String.concat "|" [
    String.concat " " (List.map sz [rep.rep_n; rep.rep_total_bp; rep.rep_written; rep.rep_written_bp; rep.rep_with_adapters;
                                    rep.rep_rc; rep.rep_qtrimmed; rep.rep_polya]);
    String.concat " " (List.map (fun (c, n) -> sz c ^ ":" ^ sz n) rep.rep_filtered);
    String.concat "/" (List.map (fun (d, rs) -> sz d ^ "=" ^ String.concat ";" (List.map s_read rs)) rep.rep_files);
    String.concat ";" (List.map (fun row -> String.concat "," (List.map s_field row)) rep.rep_info);
    String.concat ";" (List.map s_event rep.rep_events) ]

(* ---- parser model *)
let int_of_atype = function Front -> 0 | RightmostFront -> 1 | Back -> 2 | Anywhere -> 3 | NonInternalFront -> 4
  | NonInternalBack -> 5 | Prefix -> 6 | Suffix -> 7
let s_name = function None -> "-" | Some n -> "n" ^ szl n
let s_desc d =
  String.concat "," [string_of_int (int_of_atype d.d_class); szl d.d_sequence; sz d.d_rate.qnum ^ "/" ^ string_of_int (int_of_pos d.d_rate.qden);
                     sz d.d_min_overlap; sb d.d_read_wildcards; sb d.d_adapter_wildcards; sb d.d_indels; sb d.d_force_anywhere; s_name d.d_name]
let s_out = function
  | OSingle d -> "S," ^ s_desc d
  | OLinked (n, f, b, fr, br) -> "L," ^ s_name n ^ "," ^ sb fr ^ "," ^ sb br ^ "," ^ s_desc f ^ "," ^ s_desc b
let value_of s = match ints s with
  | [n] -> VInt (z_of_int n)
  | [m; d] -> VDec (z_of_int m, nat_of_int d)
  | _ -> failwith "value"

(* ---- paired pipeline *)
let opt_opt_z s = match String.trim s with "" -> None | "N" -> Some None | t -> Some (Some (z_of_int (int_of_string t)))
let poptions_of (a : string array) =
  let fl = Array.of_list (ints a.(21)) in
  { po_base = options_of a; po_cuts2 = zl a.(17);
    po_qcut2 = (match ints a.(18) with [] -> None | [0] -> Some None | [x; y] -> Some (Some (z_of_int x, z_of_int y)) | _ -> failwith "qcut2");
    po_adapters2 = List.map padapter_of (split ';' a.(19)); po_length2 = opt_z a.(20);
    po_pair_adapters = fl.(0) <> 0; po_combinatorial = fl.(1) <> 0; po_untrimmed_paired = fl.(2) <> 0;
    po_min_len1_absent = fl.(3) <> 0; po_max_len1_absent = fl.(4) <> 0;
    po_pair_filter = (match ints a.(22) with [] -> None | [0] -> Some PFAny | [1] -> Some PFBoth | _ -> Some PFFirst);
    po_min_len2 = opt_opt_z a.(23); po_max_len2 = opt_opt_z a.(24) }
let pair_of s = match String.split_on_char '/' s with [x; y] -> (read_of x, read_of y) | _ -> failwith "pair"
let s_preport rep =
  String.concat "|" [
    String.concat " " (List.map sz [rep.pr_n; rep.pr_bp1; rep.pr_bp2; rep.pr_written; rep.pr_wbp1; rep.pr_wbp2; rep.pr_with1; rep.pr_with2;
                                    rep.pr_rc; rep.pr_q1; rep.pr_q2; rep.pr_pa1; rep.pr_pa2]);
    String.concat " " (List.map (fun (c, n) -> sz c ^ ":" ^ sz n) rep.pr_filtered);
    String.concat "#" (List.map (fun (d, rs) -> sz d ^ "=" ^ String.concat ";" (List.map (fun (x, y) -> s_read x ^ "/" ^ s_read y) rs)) rep.pr_files) ]

(* ---- runner trace validation *)
let event_of s =
  match List.filter (fun x -> x <> "") (String.split_on_char ' ' s) with
  | ["req"; w] -> EReq (nat_of_int (int_of_string w))
  | ["send"; w; i] -> ESend (nat_of_int (int_of_string w), nat_of_int (int_of_string i))
  | ["pill"; w] -> EPill (nat_of_int (int_of_string w))
  | ["rfail"] -> ERFail
  | ["take"; w; i] -> ETake (nat_of_int (int_of_string w), nat_of_int (int_of_string i))
  | ["takebad"; w; i] -> ETakeBad (nat_of_int (int_of_string w), nat_of_int (int_of_string i))
  | ["fin"; w] -> EFin (nat_of_int (int_of_string w))
  | ["werr"; w] -> EWErr (nat_of_int (int_of_string w))
  | ["recv"; w; i] -> ERecv (nat_of_int (int_of_string w), nat_of_int (int_of_string i))
  | ["recvfin"; w] -> ERecvFin (nat_of_int (int_of_string w))
  | ["recverr"] -> ERecvErr
  | _ -> failwith ("event " ^ s)

let run cmd (a : string array) : string =
  match cmd with
  | "qtrim" -> let (s, e) = quality_trim_index (zl a.(0)) (z1 a.(1)) (z1 a.(2)) (z1 a.(3)) in sz s ^ " " ^ sz e
  | "nextseq" -> sz (nextseq_trim_index (zl a.(0)) (zl a.(1)) (z1 a.(2)) (z1 a.(3)))
  | "polya" -> sz (poly_a_trim_index (zl a.(0)) (b1 a.(1)))
  | "trimn" -> szl (trim_n (zl a.(0)))
  | "ncount" -> sz (n_count (zl a.(0)))
  | "qtrimmer" -> let ((s, q), t) = quality_trimmer (z1 a.(2)) (z1 a.(3)) (z1 a.(4)) (zl a.(0), zl a.(1)) in szl s ^ "|" ^ szl q ^ "|" ^ sz t
  | "nstrimmer" -> let ((s, q), t) = nextseq_trimmer (z1 a.(2)) (z1 a.(3)) (zl a.(0), zl a.(1)) in szl s ^ "|" ^ szl q ^ "|" ^ sz t
  (* locate ref|query|thr table|sir siq stir stiq wref wq|indel_cost|min_overlap *)
  | "locate" ->
      let f = Array.of_list (ints a.(3)) in
      let cfg = { start_in_ref = f.(0) <> 0; start_in_query = f.(1) <> 0; stop_in_ref = f.(2) <> 0; stop_in_query = f.(3) <> 0;
                  wildcard_ref = f.(4) <> 0; indel_cost = z1 a.(4); min_overlap = z1 a.(5) } in
      s6 (locate (thr_of (zl a.(2))) cfg (f.(5) <> 0) (zl a.(0)) (zl a.(1)))
  (* matchto type|seq|wref wq indels force|min_overlap|thr table|read *)
  | "matchto" ->
      let ad = adapter_of a in
      (match match_to (thr_of (zl a.(4))) ad (zl a.(5)) with
       | None -> "None"
       | Some m -> String.concat " " (List.map sz [m.astart; m.astop; m.rstart; m.rstop; m.mscore; m.merrors; m.mside]))
  | "matchtopf" ->
      let ad = adapter_of a in
      (match match_to_prefiltered (thr_of (zl a.(4))) ad (zl a.(5)) with
       | None -> "None"
       | Some m -> String.concat " " (List.map sz [m.astart; m.astop; m.rstart; m.rstop; m.mscore; m.merrors; m.mside]))
  | "prefilter" -> let ad = adapter_of a in sb (prefilter_passes (thr_of (zl a.(4))) ad (zl a.(5)))
  (* kmertable seq|min_overlap|thr|back front internal indels  -> sorted? no: printed in model order, canonicalised by the harness *)
  | "kmertable" ->
      let f = Array.of_list (ints a.(3)) in
      let t = positions_and_kmers (thr_of (zl a.(2))) (zl a.(0)) (z1 a.(1)) (f.(0) <> 0) (f.(1) <> 0) (f.(2) <> 0) (f.(3) <> 0) in
      String.concat ";" (List.map (fun ((k, st), sp) -> szl k ^ "," ^ sz st ^ "," ^ (match sp with None -> "N" | Some s -> sz s)) t)
  (* kpresent wref wq|table as in kmertable output|seq *)
  | "kpresent" ->
      let f = Array.of_list (ints a.(0)) in
      let parse_t s = match String.split_on_char ',' s with
        | [k; st; sp] -> ((zl k, z1 st), (if String.trim sp = "N" then None else Some (z1 sp)))
        | _ -> failwith "triple" in
      let tab = if String.trim a.(1) = "" then [] else List.map parse_t (String.split_on_char ';' a.(1)) in
      sb (kmers_present (f.(0) <> 0) (f.(1) <> 0) tab (zl a.(2)))
  (* kpresentsa wref wq|entries start,stop,kmer/kmer/...;...|seq  -- the bit-level model (packed shift-and words) *)
  | "kpresentsa" ->
      let f = Array.of_list (ints a.(0)) in
      let parse_e s = match String.split_on_char ',' s with
        | [st; sp; ks] -> ((z1 st, (if String.trim sp = "N" then None else Some (z1 sp))), List.map zl (String.split_on_char '/' ks))
        | _ -> failwith "entry" in
      let es = if String.trim a.(1) = "" then [] else List.map parse_e (String.split_on_char ';' a.(1)) in
      sb (kmers_present_sa (f.(0) <> 0) (f.(1) <> 0) es (zl a.(2)))
  (* parse spec|cmdtype(0 front,1 back,2 anywhere)|max_errors (n | mant digits)|min_overlap|rw aw indels|records name,seq;... *)
  | "parse" ->
      let t = (match List.hd (ints a.(1)) with 0 -> TFront | 1 -> TBack | _ -> TAnywhere) in
      let fl = Array.of_list (ints a.(4)) in
      let g = { g_max_errors = value_of a.(2); g_min_overlap = z1 a.(3); g_read_wildcards = fl.(0) <> 0;
                g_adapter_wildcards = fl.(1) <> 0; g_indels = fl.(2) <> 0 } in
      let recs = List.map (fun r -> match String.split_on_char ',' r with
                    | [n; sq] -> ((if String.trim n = "-" then None else Some (zl n)), zl sq) | _ -> failwith "record") (split ';' a.(5)) in
      (match make_from_spec (zl a.(0)) t g recs with
       | Err -> "Err"
       | Ok l -> String.concat ";" (List.map s_out l))
  (* index prefix(0/1)|adapter;adapter;...|read      adapter = type,seq,wref wq indels force,minov,thr  (k = thr[len seq])
     ilookup prefix|adapters|s      ilengths prefix|adapters *)
  | "index" | "ilookup" | "ilengths" ->
      let ads = List.map (fun s -> let f = Array.of_list (String.split_on_char ',' s) in
                            let (ad, thr) = single_of f 0 in
                            let k = List.nth thr (List.length ad.a_seq) in
                            { ia_ad = ad; ia_thr = thr; ia_k = k }) (split ';' a.(1)) in
      let pre = List.hd (ints a.(0)) <> 0 in
      (match cmd with
       | "index" ->
           (match index_match pre ads (zl a.(2)) with
            | None -> "None"
            | Some ((((r, rs), re), e), m) -> String.concat " " [string_of_int (int_of_nat r); sz rs; sz re; sz e; sz m])
       | "ilookup" ->
           (match index_lookup ads (zl a.(2)) with
            | None -> "None"
            | Some ((r, e), m) -> String.concat " " [string_of_int (int_of_nat r); sz e; sz m])
       | _ -> szl (index_lengths ads))
  (* format name (char codes, lower-cased)|has_qual *)
  | "format" ->
      let name = zl a.(0) in
      (match detect_format name with None -> "none" | Some Fasta -> "fasta" | Some Fastq -> "fastq") ^ " " ^
      (match output_format name (List.hd (ints a.(1)) <> 0) with Fasta -> "fasta" | Fastq -> "fastq")
  (* trace W|C|bad chunk indices|rfail ("" or k)|event;event;...|ffail (0/1) *)
  | "trace" ->
      let w = nat_of_int (List.hd (ints a.(0))) and c = nat_of_int (List.hd (ints a.(1))) in
      let bads = List.map nat_of_int (ints a.(2)) in
      let rf = (match ints a.(3) with [] -> None | k :: _ -> Some (nat_of_int k)) in
      let (((((n, total), term), ok), wr), st) = validate_trace w c bads rf (Array.length a > 5 && String.trim a.(5) = "1") (List.map event_of (split ';' a.(4))) in
      String.concat "|" [string_of_int (int_of_nat n); string_of_int (int_of_nat total); sb term; sb ok;
                         String.concat " " (List.map (fun x -> string_of_int (int_of_nat x)) wr); string_of_int (int_of_nat st)]
  | "ppipeline" -> s_preport (prun_cli (poptions_of a) (List.map pair_of (split ';' a.(16))))
  | "pipeline" -> s_report (run_cli (options_of a) (List.map read_of (split ';' a.(16))))
  | _ -> failwith ("unknown command " ^ cmd)

let () =
  try
    while true do
      let line = input_line stdin in
      let line = String.trim line in
      if line <> "" then begin
        let (cmd, rest) =
          match String.index_opt line ' ' with
          | None -> (line, "")
          | Some i -> (String.sub line 0 i, String.sub line (i + 1) (String.length line - i - 1)) in
        let args = Array.of_list (String.split_on_char '|' rest) in
        let out = try run cmd args with
          | Failure m -> "ERROR " ^ m
          | Invalid_argument m -> "ERROR " ^ m in
        print_string out; print_newline ()
      end
    done
  with End_of_file -> ()
