(* GENERATED from src/cutadapt/expected_errors.h by translate/eetable.py -- do not edit *)
From Coq Require Import Reals QArith Qreals.
From Interval Require Import Tactic.
From CV Require Import Spec.EEBound.
Open Scope R_scope.

Lemma ee_acc_24 : ee_bound 24 (3981071705534973 # 1000000000000000000)%Q.
Proof. unfold ee_bound, pow10neg, Q2R; cbn [Qnum Qden]. interval with (i_prec 80). Qed.
Lemma ee_acc_25 : ee_bound 25 (15811388300841897 # 5000000000000000000)%Q.
Proof. unfold ee_bound, pow10neg, Q2R; cbn [Qnum Qden]. interval with (i_prec 80). Qed.
Lemma ee_acc_26 : ee_bound 26 (12559432157547897 # 5000000000000000000)%Q.
Proof. unfold ee_bound, pow10neg, Q2R; cbn [Qnum Qden]. interval with (i_prec 80). Qed.
Lemma ee_acc_27 : ee_bound 27 (1995262314968879 # 1000000000000000000)%Q.
Proof. unfold ee_bound, pow10neg, Q2R; cbn [Qnum Qden]. interval with (i_prec 80). Qed.
Lemma ee_acc_28 : ee_bound 28 (792446596230557 # 500000000000000000)%Q.
Proof. unfold ee_bound, pow10neg, Q2R; cbn [Qnum Qden]. interval with (i_prec 80). Qed.
Lemma ee_acc_29 : ee_bound 29 (503570164717667 # 400000000000000000)%Q.
Proof. unfold ee_bound, pow10neg, Q2R; cbn [Qnum Qden]. interval with (i_prec 80). Qed.
Lemma ee_acc_30 : ee_bound 30 (1 # 1000)%Q.
Proof. unfold ee_bound, pow10neg, Q2R; cbn [Qnum Qden]. interval with (i_prec 80). Qed.
Lemma ee_acc_31 : ee_bound 31 (7943282347242813 # 10000000000000000000)%Q.
Proof. unfold ee_bound, pow10neg, Q2R; cbn [Qnum Qden]. interval with (i_prec 80). Qed.
Lemma ee_acc_32 : ee_bound 32 (630957344480193 # 1000000000000000000)%Q.
Proof. unfold ee_bound, pow10neg, Q2R; cbn [Qnum Qden]. interval with (i_prec 80). Qed.
Lemma ee_acc_33 : ee_bound 33 (200474893450909 # 400000000000000000)%Q.
Proof. unfold ee_bound, pow10neg, Q2R; cbn [Qnum Qden]. interval with (i_prec 80). Qed.
Lemma ee_acc_34 : ee_bound 34 (7962143411069947 # 20000000000000000000)%Q.
Proof. unfold ee_bound, pow10neg, Q2R; cbn [Qnum Qden]. interval with (i_prec 80). Qed.
Lemma ee_acc_35 : ee_bound 35 (15811388300841897 # 50000000000000000000)%Q.
Proof. unfold ee_bound, pow10neg, Q2R; cbn [Qnum Qden]. interval with (i_prec 80). Qed.
