(* generated from src/cutadapt/_align.pyx (DEF lines) and adapters.py (_make_aligner) -- do not edit *)
From Coq Require Import ZArith.
Open Scope Z_scope.

Definition MATCH_SCORE : Z := 1.
Definition MISMATCH_SCORE : Z := -1.
Definition INSERTION_SCORE : Z := -2.
Definition DELETION_SCORE : Z := -2.
Definition INDEL_COST_ON : Z := 1.
Definition INDEL_COST_OFF : Z := 100000.
