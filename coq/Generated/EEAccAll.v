(* GENERATED from src/cutadapt/expected_errors.h by translate/eetable.py -- do not edit *)
From Coq Require Import ZArith Reals QArith Qreals List.
From CV Require Import Spec.EEBound Generated.EETable Generated.EEAcc0 Generated.EEAcc1 Generated.EEAcc2 Generated.EEAcc3 Generated.EEAcc4 Generated.EEAcc5 Generated.EEAcc6 Generated.EEAcc7.
Import ListNotations.

Definition ee_indices : list Z := [0; 1; 2; 3; 4; 5; 6; 7; 8; 9; 10; 11; 12; 13; 14; 15; 16; 17; 18; 19; 20; 21; 22; 23; 24; 25; 26; 27; 28; 29; 30; 31; 32; 33; 34; 35; 36; 37; 38; 39; 40; 41; 42; 43; 44; 45; 46; 47; 48; 49; 50; 51; 52; 53; 54; 55; 56; 57; 58; 59; 60; 61; 62; 63; 64; 65; 66; 67; 68; 69; 70; 71; 72; 73; 74; 75; 76; 77; 78; 79; 80; 81; 82; 83; 84; 85; 86; 87; 88; 89; 90; 91; 92; 93]%Z.

Lemma ee_acc_all : Forall2 ee_bound ee_indices ee_table_q.
Proof.
  unfold ee_indices, ee_table_q.
  apply Forall2_cons; [exact ee_acc_0|].
  apply Forall2_cons; [exact ee_acc_1|].
  apply Forall2_cons; [exact ee_acc_2|].
  apply Forall2_cons; [exact ee_acc_3|].
  apply Forall2_cons; [exact ee_acc_4|].
  apply Forall2_cons; [exact ee_acc_5|].
  apply Forall2_cons; [exact ee_acc_6|].
  apply Forall2_cons; [exact ee_acc_7|].
  apply Forall2_cons; [exact ee_acc_8|].
  apply Forall2_cons; [exact ee_acc_9|].
  apply Forall2_cons; [exact ee_acc_10|].
  apply Forall2_cons; [exact ee_acc_11|].
  apply Forall2_cons; [exact ee_acc_12|].
  apply Forall2_cons; [exact ee_acc_13|].
  apply Forall2_cons; [exact ee_acc_14|].
  apply Forall2_cons; [exact ee_acc_15|].
  apply Forall2_cons; [exact ee_acc_16|].
  apply Forall2_cons; [exact ee_acc_17|].
  apply Forall2_cons; [exact ee_acc_18|].
  apply Forall2_cons; [exact ee_acc_19|].
  apply Forall2_cons; [exact ee_acc_20|].
  apply Forall2_cons; [exact ee_acc_21|].
  apply Forall2_cons; [exact ee_acc_22|].
  apply Forall2_cons; [exact ee_acc_23|].
  apply Forall2_cons; [exact ee_acc_24|].
  apply Forall2_cons; [exact ee_acc_25|].
  apply Forall2_cons; [exact ee_acc_26|].
  apply Forall2_cons; [exact ee_acc_27|].
  apply Forall2_cons; [exact ee_acc_28|].
  apply Forall2_cons; [exact ee_acc_29|].
  apply Forall2_cons; [exact ee_acc_30|].
  apply Forall2_cons; [exact ee_acc_31|].
  apply Forall2_cons; [exact ee_acc_32|].
  apply Forall2_cons; [exact ee_acc_33|].
  apply Forall2_cons; [exact ee_acc_34|].
  apply Forall2_cons; [exact ee_acc_35|].
  apply Forall2_cons; [exact ee_acc_36|].
  apply Forall2_cons; [exact ee_acc_37|].
  apply Forall2_cons; [exact ee_acc_38|].
  apply Forall2_cons; [exact ee_acc_39|].
  apply Forall2_cons; [exact ee_acc_40|].
  apply Forall2_cons; [exact ee_acc_41|].
  apply Forall2_cons; [exact ee_acc_42|].
  apply Forall2_cons; [exact ee_acc_43|].
  apply Forall2_cons; [exact ee_acc_44|].
  apply Forall2_cons; [exact ee_acc_45|].
  apply Forall2_cons; [exact ee_acc_46|].
  apply Forall2_cons; [exact ee_acc_47|].
  apply Forall2_cons; [exact ee_acc_48|].
  apply Forall2_cons; [exact ee_acc_49|].
  apply Forall2_cons; [exact ee_acc_50|].
  apply Forall2_cons; [exact ee_acc_51|].
  apply Forall2_cons; [exact ee_acc_52|].
  apply Forall2_cons; [exact ee_acc_53|].
  apply Forall2_cons; [exact ee_acc_54|].
  apply Forall2_cons; [exact ee_acc_55|].
  apply Forall2_cons; [exact ee_acc_56|].
  apply Forall2_cons; [exact ee_acc_57|].
  apply Forall2_cons; [exact ee_acc_58|].
  apply Forall2_cons; [exact ee_acc_59|].
  apply Forall2_cons; [exact ee_acc_60|].
  apply Forall2_cons; [exact ee_acc_61|].
  apply Forall2_cons; [exact ee_acc_62|].
  apply Forall2_cons; [exact ee_acc_63|].
  apply Forall2_cons; [exact ee_acc_64|].
  apply Forall2_cons; [exact ee_acc_65|].
  apply Forall2_cons; [exact ee_acc_66|].
  apply Forall2_cons; [exact ee_acc_67|].
  apply Forall2_cons; [exact ee_acc_68|].
  apply Forall2_cons; [exact ee_acc_69|].
  apply Forall2_cons; [exact ee_acc_70|].
  apply Forall2_cons; [exact ee_acc_71|].
  apply Forall2_cons; [exact ee_acc_72|].
  apply Forall2_cons; [exact ee_acc_73|].
  apply Forall2_cons; [exact ee_acc_74|].
  apply Forall2_cons; [exact ee_acc_75|].
  apply Forall2_cons; [exact ee_acc_76|].
  apply Forall2_cons; [exact ee_acc_77|].
  apply Forall2_cons; [exact ee_acc_78|].
  apply Forall2_cons; [exact ee_acc_79|].
  apply Forall2_cons; [exact ee_acc_80|].
  apply Forall2_cons; [exact ee_acc_81|].
  apply Forall2_cons; [exact ee_acc_82|].
  apply Forall2_cons; [exact ee_acc_83|].
  apply Forall2_cons; [exact ee_acc_84|].
  apply Forall2_cons; [exact ee_acc_85|].
  apply Forall2_cons; [exact ee_acc_86|].
  apply Forall2_cons; [exact ee_acc_87|].
  apply Forall2_cons; [exact ee_acc_88|].
  apply Forall2_cons; [exact ee_acc_89|].
  apply Forall2_cons; [exact ee_acc_90|].
  apply Forall2_cons; [exact ee_acc_91|].
  apply Forall2_cons; [exact ee_acc_92|].
  apply Forall2_cons; [exact ee_acc_93|].
  apply Forall2_nil.
Qed.
