(* GENERATED from src/cutadapt/expected_errors.h by translate/eetable.py -- do not edit *)
From Coq Require Import Reals QArith Qreals.
From Interval Require Import Tactic.
From CV Require Import Spec.EEBound.
Open Scope R_scope.

Lemma ee_acc_84 : ee_bound 84 (3981071705534969 # 1000000000000000000000000)%Q.
Proof. unfold ee_bound, pow10neg, Q2R; cbn [Qnum Qden]. interval with (i_prec 80). Qed.
Lemma ee_acc_85 : ee_bound 85 (6324555320336759 # 2000000000000000000000000)%Q.
Proof. unfold ee_bound, pow10neg, Q2R; cbn [Qnum Qden]. interval with (i_prec 80). Qed.
Lemma ee_acc_86 : ee_bound 86 (1255943215754791 # 500000000000000000000000)%Q.
Proof. unfold ee_bound, pow10neg, Q2R; cbn [Qnum Qden]. interval with (i_prec 80). Qed.
Lemma ee_acc_87 : ee_bound 87 (4988155787422207 # 2500000000000000000000000)%Q.
Proof. unfold ee_bound, pow10neg, Q2R; cbn [Qnum Qden]. interval with (i_prec 80). Qed.
Lemma ee_acc_88 : ee_bound 88 (1584893192461111 # 1000000000000000000000000)%Q.
Proof. unfold ee_bound, pow10neg, Q2R; cbn [Qnum Qden]. interval with (i_prec 80). Qed.
Lemma ee_acc_89 : ee_bound 89 (12589254117941663 # 10000000000000000000000000)%Q.
Proof. unfold ee_bound, pow10neg, Q2R; cbn [Qnum Qden]. interval with (i_prec 80). Qed.
Lemma ee_acc_90 : ee_bound 90 (1 # 1000000000)%Q.
Proof. unfold ee_bound, pow10neg, Q2R; cbn [Qnum Qden]. interval with (i_prec 80). Qed.
Lemma ee_acc_91 : ee_bound 91 (3971641173621411 # 5000000000000000000000000)%Q.
Proof. unfold ee_bound, pow10neg, Q2R; cbn [Qnum Qden]. interval with (i_prec 80). Qed.
Lemma ee_acc_92 : ee_bound 92 (3154786722400971 # 5000000000000000000000000)%Q.
Proof. unfold ee_bound, pow10neg, Q2R; cbn [Qnum Qden]. interval with (i_prec 80). Qed.
Lemma ee_acc_93 : ee_bound 93 (2505936168136357 # 5000000000000000000000000)%Q.
Proof. unfold ee_bound, pow10neg, Q2R; cbn [Qnum Qden]. interval with (i_prec 80). Qed.
