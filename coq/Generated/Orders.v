(* generated from src/cutadapt/cli.py (make_pipeline_from_args, modifiers_applying_to_both_ends_if_paired) -- do not edit *)
From Coq Require Import List Bool.
From CV Require Import Model.Pipeline.
Import ListNotations.

(* order in which the read-modifying stages are constructed; KRename is not a stage of the model *)
Definition modifier_order_with_rename : list (option kind) := [Some KCut; Some KNextseq; Some KQual; Some KAdapters; Some KPolyA; Some KLength; Some KTrimN; Some KLengthTag; Some KStripSuffix; Some KPrefixSuffix; Some KZeroCap; None].
Definition modifier_order : list kind := [KCut; KNextseq; KQual; KAdapters; KPolyA; KLength; KTrimN; KLengthTag; KStripSuffix; KPrefixSuffix; KZeroCap].
Definition filter_order : list fkind := [FTooShort; FTooLong; FMaxN; FMaxEE; FMaxAER; FCasava; FDiscardTrimmed; FDiscardUntrimmed; FUntrimmedOut].
Definition text_writers_before_filters : bool := true.
Definition sink_after_filters : bool := true.
