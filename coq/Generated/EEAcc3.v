(* GENERATED from src/cutadapt/expected_errors.h by translate/eetable.py -- do not edit *)
From Coq Require Import Reals QArith Qreals.
From Interval Require Import Tactic.
From CV Require Import Spec.EEBound.
Open Scope R_scope.

Lemma ee_acc_36 : ee_bound 36 (5023772863019159 # 20000000000000000000)%Q.
Proof. unfold ee_bound, pow10neg, Q2R; cbn [Qnum Qden]. interval with (i_prec 80). Qed.
Lemma ee_acc_37 : ee_bound 37 (4988155787422197 # 25000000000000000000)%Q.
Proof. unfold ee_bound, pow10neg, Q2R; cbn [Qnum Qden]. interval with (i_prec 80). Qed.
Lemma ee_acc_38 : ee_bound 38 (7924465962305571 # 50000000000000000000)%Q.
Proof. unfold ee_bound, pow10neg, Q2R; cbn [Qnum Qden]. interval with (i_prec 80). Qed.
Lemma ee_acc_39 : ee_bound 39 (6294627058970837 # 50000000000000000000)%Q.
Proof. unfold ee_bound, pow10neg, Q2R; cbn [Qnum Qden]. interval with (i_prec 80). Qed.
Lemma ee_acc_40 : ee_bound 40 (1 # 10000)%Q.
Proof. unfold ee_bound, pow10neg, Q2R; cbn [Qnum Qden]. interval with (i_prec 80). Qed.
Lemma ee_acc_41 : ee_bound 41 (3971641173621411 # 50000000000000000000)%Q.
Proof. unfold ee_bound, pow10neg, Q2R; cbn [Qnum Qden]. interval with (i_prec 80). Qed.
Lemma ee_acc_42 : ee_bound 42 (6309573444801929 # 100000000000000000000)%Q.
Proof. unfold ee_bound, pow10neg, Q2R; cbn [Qnum Qden]. interval with (i_prec 80). Qed.
Lemma ee_acc_43 : ee_bound 43 (200474893450909 # 4000000000000000000)%Q.
Proof. unfold ee_bound, pow10neg, Q2R; cbn [Qnum Qden]. interval with (i_prec 80). Qed.
Lemma ee_acc_44 : ee_bound 44 (7962143411069939 # 200000000000000000000)%Q.
Proof. unfold ee_bound, pow10neg, Q2R; cbn [Qnum Qden]. interval with (i_prec 80). Qed.
Lemma ee_acc_45 : ee_bound 45 (6324555320336759 # 200000000000000000000)%Q.
Proof. unfold ee_bound, pow10neg, Q2R; cbn [Qnum Qden]. interval with (i_prec 80). Qed.
Lemma ee_acc_46 : ee_bound 46 (12559432157547911 # 500000000000000000000)%Q.
Proof. unfold ee_bound, pow10neg, Q2R; cbn [Qnum Qden]. interval with (i_prec 80). Qed.
Lemma ee_acc_47 : ee_bound 47 (9976311574844393 # 500000000000000000000)%Q.
Proof. unfold ee_bound, pow10neg, Q2R; cbn [Qnum Qden]. interval with (i_prec 80). Qed.
