(* generated from src/cutadapt/align.py (EndSkip) and src/cutadapt/adapters.py (Where, adapter classes) -- do not edit *)
From Coq Require Import ZArith List String.
Import ListNotations.
Open Scope Z_scope.

Definition endskip_REFERENCE_START : Z := 1.
Definition endskip_QUERY_START : Z := 2.
Definition endskip_REFERENCE_END : Z := 4.
Definition endskip_QUERY_STOP : Z := 8.
Definition endskip_SEMIGLOBAL : Z := 15.
Definition where_BACK : Z := 14.
Definition where_FRONT : Z := 11.
Definition where_PREFIX : Z := 8.
Definition where_SUFFIX : Z := 2.
Definition where_FRONT_NOT_INTERNAL : Z := 9.
Definition where_BACK_NOT_INTERNAL : Z := 6.
Definition where_ANYWHERE : Z := 15.

Definition cls_FrontAdapter_flags : Z := where_FRONT.
Definition cls_FrontAdapter_side : Z := 0.  (* 0 = RemoveBeforeMatch (5'), 1 = RemoveAfterMatch (3'), 2 = decided by rstart *)
Definition cls_FrontAdapter_reversed : bool := false.
Definition cls_FrontAdapter_upper_first : bool := false.
Definition cls_RightmostFrontAdapter_flags : Z := where_BACK.
Definition cls_RightmostFrontAdapter_side : Z := 0.  (* 0 = RemoveBeforeMatch (5'), 1 = RemoveAfterMatch (3'), 2 = decided by rstart *)
Definition cls_RightmostFrontAdapter_reversed : bool := true.
Definition cls_RightmostFrontAdapter_upper_first : bool := false.
Definition cls_BackAdapter_flags : Z := where_BACK.
Definition cls_BackAdapter_side : Z := 1.  (* 0 = RemoveBeforeMatch (5'), 1 = RemoveAfterMatch (3'), 2 = decided by rstart *)
Definition cls_BackAdapter_reversed : bool := false.
Definition cls_BackAdapter_upper_first : bool := false.
Definition cls_AnywhereAdapter_flags : Z := where_ANYWHERE.
Definition cls_AnywhereAdapter_side : Z := 2.  (* 0 = RemoveBeforeMatch (5'), 1 = RemoveAfterMatch (3'), 2 = decided by rstart *)
Definition cls_AnywhereAdapter_reversed : bool := false.
Definition cls_AnywhereAdapter_upper_first : bool := true.
Definition cls_NonInternalFrontAdapter_flags : Z := where_FRONT_NOT_INTERNAL.
Definition cls_NonInternalFrontAdapter_side : Z := 0.  (* 0 = RemoveBeforeMatch (5'), 1 = RemoveAfterMatch (3'), 2 = decided by rstart *)
Definition cls_NonInternalFrontAdapter_reversed : bool := false.
Definition cls_NonInternalFrontAdapter_upper_first : bool := false.
Definition cls_NonInternalBackAdapter_flags : Z := where_BACK_NOT_INTERNAL.
Definition cls_NonInternalBackAdapter_side : Z := 1.  (* 0 = RemoveBeforeMatch (5'), 1 = RemoveAfterMatch (3'), 2 = decided by rstart *)
Definition cls_NonInternalBackAdapter_reversed : bool := false.
Definition cls_NonInternalBackAdapter_upper_first : bool := false.
Definition cls_PrefixAdapter_flags : Z := where_PREFIX.
Definition cls_PrefixAdapter_side : Z := 0.  (* 0 = RemoveBeforeMatch (5'), 1 = RemoveAfterMatch (3'), 2 = decided by rstart *)
Definition cls_PrefixAdapter_reversed : bool := false.
Definition cls_PrefixAdapter_upper_first : bool := false.
Definition cls_SuffixAdapter_flags : Z := where_SUFFIX.
Definition cls_SuffixAdapter_side : Z := 1.  (* 0 = RemoveBeforeMatch (5'), 1 = RemoveAfterMatch (3'), 2 = decided by rstart *)
Definition cls_SuffixAdapter_reversed : bool := false.
Definition cls_SuffixAdapter_upper_first : bool := false.
