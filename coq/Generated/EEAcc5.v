(* GENERATED from src/cutadapt/expected_errors.h by translate/eetable.py -- do not edit *)
From Coq Require Import Reals QArith Qreals.
From Interval Require Import Tactic.
From CV Require Import Spec.EEBound.
Open Scope R_scope.

Lemma ee_acc_60 : ee_bound 60 (1 # 1000000)%Q.
Proof. unfold ee_bound, pow10neg, Q2R; cbn [Qnum Qden]. interval with (i_prec 80). Qed.
Lemma ee_acc_61 : ee_bound 61 (3971641173621411 # 5000000000000000000000)%Q.
Proof. unfold ee_bound, pow10neg, Q2R; cbn [Qnum Qden]. interval with (i_prec 80). Qed.
Lemma ee_acc_62 : ee_bound 62 (630957344480193 # 1000000000000000000000)%Q.
Proof. unfold ee_bound, pow10neg, Q2R; cbn [Qnum Qden]. interval with (i_prec 80). Qed.
Lemma ee_acc_63 : ee_bound 63 (200474893450909 # 400000000000000000000)%Q.
Proof. unfold ee_bound, pow10neg, Q2R; cbn [Qnum Qden]. interval with (i_prec 80). Qed.
Lemma ee_acc_64 : ee_bound 64 (3981071705534969 # 10000000000000000000000)%Q.
Proof. unfold ee_bound, pow10neg, Q2R; cbn [Qnum Qden]. interval with (i_prec 80). Qed.
Lemma ee_acc_65 : ee_bound 65 (3162277660168379 # 10000000000000000000000)%Q.
Proof. unfold ee_bound, pow10neg, Q2R; cbn [Qnum Qden]. interval with (i_prec 80). Qed.
Lemma ee_acc_66 : ee_bound 66 (25118864315095823 # 100000000000000000000000)%Q.
Proof. unfold ee_bound, pow10neg, Q2R; cbn [Qnum Qden]. interval with (i_prec 80). Qed.
Lemma ee_acc_67 : ee_bound 67 (19952623149688787 # 100000000000000000000000)%Q.
Proof. unfold ee_bound, pow10neg, Q2R; cbn [Qnum Qden]. interval with (i_prec 80). Qed.
Lemma ee_acc_68 : ee_bound 68 (792446596230557 # 5000000000000000000000)%Q.
Proof. unfold ee_bound, pow10neg, Q2R; cbn [Qnum Qden]. interval with (i_prec 80). Qed.
Lemma ee_acc_69 : ee_bound 69 (6294627058970831 # 50000000000000000000000)%Q.
Proof. unfold ee_bound, pow10neg, Q2R; cbn [Qnum Qden]. interval with (i_prec 80). Qed.
Lemma ee_acc_70 : ee_bound 70 (1 # 10000000)%Q.
Proof. unfold ee_bound, pow10neg, Q2R; cbn [Qnum Qden]. interval with (i_prec 80). Qed.
Lemma ee_acc_71 : ee_bound 71 (3971641173621411 # 50000000000000000000000)%Q.
Proof. unfold ee_bound, pow10neg, Q2R; cbn [Qnum Qden]. interval with (i_prec 80). Qed.
