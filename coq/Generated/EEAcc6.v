(* GENERATED from src/cutadapt/expected_errors.h by translate/eetable.py -- do not edit *)
From Coq Require Import Reals QArith Qreals.
From Interval Require Import Tactic.
From CV Require Import Spec.EEBound.
Open Scope R_scope.

Lemma ee_acc_72 : ee_bound 72 (630957344480193 # 10000000000000000000000)%Q.
Proof. unfold ee_bound, pow10neg, Q2R; cbn [Qnum Qden]. interval with (i_prec 80). Qed.
Lemma ee_acc_73 : ee_bound 73 (200474893450909 # 4000000000000000000000)%Q.
Proof. unfold ee_bound, pow10neg, Q2R; cbn [Qnum Qden]. interval with (i_prec 80). Qed.
Lemma ee_acc_74 : ee_bound 74 (3981071705534969 # 100000000000000000000000)%Q.
Proof. unfold ee_bound, pow10neg, Q2R; cbn [Qnum Qden]. interval with (i_prec 80). Qed.
Lemma ee_acc_75 : ee_bound 75 (3162277660168379 # 100000000000000000000000)%Q.
Proof. unfold ee_bound, pow10neg, Q2R; cbn [Qnum Qden]. interval with (i_prec 80). Qed.
Lemma ee_acc_76 : ee_bound 76 (1255943215754791 # 50000000000000000000000)%Q.
Proof. unfold ee_bound, pow10neg, Q2R; cbn [Qnum Qden]. interval with (i_prec 80). Qed.
Lemma ee_acc_77 : ee_bound 77 (9976311574844393 # 500000000000000000000000)%Q.
Proof. unfold ee_bound, pow10neg, Q2R; cbn [Qnum Qden]. interval with (i_prec 80). Qed.
Lemma ee_acc_78 : ee_bound 78 (15848931924611143 # 1000000000000000000000000)%Q.
Proof. unfold ee_bound, pow10neg, Q2R; cbn [Qnum Qden]. interval with (i_prec 80). Qed.
Lemma ee_acc_79 : ee_bound 79 (12589254117941661 # 1000000000000000000000000)%Q.
Proof. unfold ee_bound, pow10neg, Q2R; cbn [Qnum Qden]. interval with (i_prec 80). Qed.
Lemma ee_acc_80 : ee_bound 80 (1 # 100000000)%Q.
Proof. unfold ee_bound, pow10neg, Q2R; cbn [Qnum Qden]. interval with (i_prec 80). Qed.
Lemma ee_acc_81 : ee_bound 81 (3971641173621411 # 500000000000000000000000)%Q.
Proof. unfold ee_bound, pow10neg, Q2R; cbn [Qnum Qden]. interval with (i_prec 80). Qed.
Lemma ee_acc_82 : ee_bound 82 (6309573444801943 # 1000000000000000000000000)%Q.
Proof. unfold ee_bound, pow10neg, Q2R; cbn [Qnum Qden]. interval with (i_prec 80). Qed.
Lemma ee_acc_83 : ee_bound 83 (1002374467254543 # 200000000000000000000000)%Q.
Proof. unfold ee_bound, pow10neg, Q2R; cbn [Qnum Qden]. interval with (i_prec 80). Qed.
