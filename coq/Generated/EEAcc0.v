(* GENERATED from src/cutadapt/expected_errors.h by translate/eetable.py -- do not edit *)
From Coq Require Import Reals QArith Qreals.
From Interval Require Import Tactic.
From CV Require Import Spec.EEBound.
Open Scope R_scope.

Lemma ee_acc_0 : ee_bound 0 (1 # 1)%Q.
Proof. unfold ee_bound, pow10neg, Q2R; cbn [Qnum Qden]. interval with (i_prec 80). Qed.
Lemma ee_acc_1 : ee_bound 1 (1588656469448563 # 2000000000000000)%Q.
Proof. unfold ee_bound, pow10neg, Q2R; cbn [Qnum Qden]. interval with (i_prec 80). Qed.
Lemma ee_acc_2 : ee_bound 2 (1577393361200483 # 2500000000000000)%Q.
Proof. unfold ee_bound, pow10neg, Q2R; cbn [Qnum Qden]. interval with (i_prec 80). Qed.
Lemma ee_acc_3 : ee_bound 3 (2505936168136361 # 5000000000000000)%Q.
Proof. unfold ee_bound, pow10neg, Q2R; cbn [Qnum Qden]. interval with (i_prec 80). Qed.
Lemma ee_acc_4 : ee_bound 4 (995267926383743 # 2500000000000000)%Q.
Proof. unfold ee_bound, pow10neg, Q2R; cbn [Qnum Qden]. interval with (i_prec 80). Qed.
Lemma ee_acc_5 : ee_bound 5 (15811388300841897 # 50000000000000000)%Q.
Proof. unfold ee_bound, pow10neg, Q2R; cbn [Qnum Qden]. interval with (i_prec 80). Qed.
Lemma ee_acc_6 : ee_bound 6 (125594321575479 # 500000000000000)%Q.
Proof. unfold ee_bound, pow10neg, Q2R; cbn [Qnum Qden]. interval with (i_prec 80). Qed.
Lemma ee_acc_7 : ee_bound 7 (19952623149688797 # 100000000000000000)%Q.
Proof. unfold ee_bound, pow10neg, Q2R; cbn [Qnum Qden]. interval with (i_prec 80). Qed.
Lemma ee_acc_8 : ee_bound 8 (7924465962305567 # 50000000000000000)%Q.
Proof. unfold ee_bound, pow10neg, Q2R; cbn [Qnum Qden]. interval with (i_prec 80). Qed.
Lemma ee_acc_9 : ee_bound 9 (12589254117941673 # 100000000000000000)%Q.
Proof. unfold ee_bound, pow10neg, Q2R; cbn [Qnum Qden]. interval with (i_prec 80). Qed.
Lemma ee_acc_10 : ee_bound 10 (1 # 10)%Q.
Proof. unfold ee_bound, pow10neg, Q2R; cbn [Qnum Qden]. interval with (i_prec 80). Qed.
Lemma ee_acc_11 : ee_bound 11 (3971641173621407 # 50000000000000000)%Q.
Proof. unfold ee_bound, pow10neg, Q2R; cbn [Qnum Qden]. interval with (i_prec 80). Qed.
