(* GENERATED from src/cutadapt/expected_errors.h by translate/eetable.py -- do not edit *)
From Coq Require Import Reals QArith Qreals.
From Interval Require Import Tactic.
From CV Require Import Spec.EEBound.
Open Scope R_scope.

Lemma ee_acc_48 : ee_bound 48 (792446596230557 # 50000000000000000000)%Q.
Proof. unfold ee_bound, pow10neg, Q2R; cbn [Qnum Qden]. interval with (i_prec 80). Qed.
Lemma ee_acc_49 : ee_bound 49 (12589254117941661 # 1000000000000000000000)%Q.
Proof. unfold ee_bound, pow10neg, Q2R; cbn [Qnum Qden]. interval with (i_prec 80). Qed.
Lemma ee_acc_50 : ee_bound 50 (1 # 100000)%Q.
Proof. unfold ee_bound, pow10neg, Q2R; cbn [Qnum Qden]. interval with (i_prec 80). Qed.
Lemma ee_acc_51 : ee_bound 51 (3971641173621411 # 500000000000000000000)%Q.
Proof. unfold ee_bound, pow10neg, Q2R; cbn [Qnum Qden]. interval with (i_prec 80). Qed.
Lemma ee_acc_52 : ee_bound 52 (630957344480193 # 100000000000000000000)%Q.
Proof. unfold ee_bound, pow10neg, Q2R; cbn [Qnum Qden]. interval with (i_prec 80). Qed.
Lemma ee_acc_53 : ee_bound 53 (200474893450909 # 40000000000000000000)%Q.
Proof. unfold ee_bound, pow10neg, Q2R; cbn [Qnum Qden]. interval with (i_prec 80). Qed.
Lemma ee_acc_54 : ee_bound 54 (3981071705534969 # 1000000000000000000000)%Q.
Proof. unfold ee_bound, pow10neg, Q2R; cbn [Qnum Qden]. interval with (i_prec 80). Qed.
Lemma ee_acc_55 : ee_bound 55 (3162277660168379 # 1000000000000000000000)%Q.
Proof. unfold ee_bound, pow10neg, Q2R; cbn [Qnum Qden]. interval with (i_prec 80). Qed.
Lemma ee_acc_56 : ee_bound 56 (25118864315095823 # 10000000000000000000000)%Q.
Proof. unfold ee_bound, pow10neg, Q2R; cbn [Qnum Qden]. interval with (i_prec 80). Qed.
Lemma ee_acc_57 : ee_bound 57 (19952623149688787 # 10000000000000000000000)%Q.
Proof. unfold ee_bound, pow10neg, Q2R; cbn [Qnum Qden]. interval with (i_prec 80). Qed.
Lemma ee_acc_58 : ee_bound 58 (792446596230557 # 500000000000000000000)%Q.
Proof. unfold ee_bound, pow10neg, Q2R; cbn [Qnum Qden]. interval with (i_prec 80). Qed.
Lemma ee_acc_59 : ee_bound 59 (12589254117941661 # 10000000000000000000000)%Q.
Proof. unfold ee_bound, pow10neg, Q2R; cbn [Qnum Qden]. interval with (i_prec 80). Qed.
