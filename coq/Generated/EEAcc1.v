(* GENERATED from src/cutadapt/expected_errors.h by translate/eetable.py -- do not edit *)
From Coq Require Import Reals QArith Qreals.
From Interval Require Import Tactic.
From CV Require Import Spec.EEBound.
Open Scope R_scope.

Lemma ee_acc_12 : ee_bound 12 (6309573444801933 # 100000000000000000)%Q.
Proof. unfold ee_bound, pow10neg, Q2R; cbn [Qnum Qden]. interval with (i_prec 80). Qed.
Lemma ee_acc_13 : ee_bound 13 (2505936168136361 # 50000000000000000)%Q.
Proof. unfold ee_bound, pow10neg, Q2R; cbn [Qnum Qden]. interval with (i_prec 80). Qed.
Lemma ee_acc_14 : ee_bound 14 (19905358527674867 # 500000000000000000)%Q.
Proof. unfold ee_bound, pow10neg, Q2R; cbn [Qnum Qden]. interval with (i_prec 80). Qed.
Lemma ee_acc_15 : ee_bound 15 (3162277660168379 # 100000000000000000)%Q.
Proof. unfold ee_bound, pow10neg, Q2R; cbn [Qnum Qden]. interval with (i_prec 80). Qed.
Lemma ee_acc_16 : ee_bound 16 (12559432157547897 # 500000000000000000)%Q.
Proof. unfold ee_bound, pow10neg, Q2R; cbn [Qnum Qden]. interval with (i_prec 80). Qed.
Lemma ee_acc_17 : ee_bound 17 (24940778937111 # 1250000000000000)%Q.
Proof. unfold ee_bound, pow10neg, Q2R; cbn [Qnum Qden]. interval with (i_prec 80). Qed.
Lemma ee_acc_18 : ee_bound 18 (7924465962305567 # 500000000000000000)%Q.
Proof. unfold ee_bound, pow10neg, Q2R; cbn [Qnum Qden]. interval with (i_prec 80). Qed.
Lemma ee_acc_19 : ee_bound 19 (503570164717667 # 40000000000000000)%Q.
Proof. unfold ee_bound, pow10neg, Q2R; cbn [Qnum Qden]. interval with (i_prec 80). Qed.
Lemma ee_acc_20 : ee_bound 20 (1 # 100)%Q.
Proof. unfold ee_bound, pow10neg, Q2R; cbn [Qnum Qden]. interval with (i_prec 80). Qed.
Lemma ee_acc_21 : ee_bound 21 (3971641173621407 # 500000000000000000)%Q.
Proof. unfold ee_bound, pow10neg, Q2R; cbn [Qnum Qden]. interval with (i_prec 80). Qed.
Lemma ee_acc_22 : ee_bound 22 (630957344480193 # 100000000000000000)%Q.
Proof. unfold ee_bound, pow10neg, Q2R; cbn [Qnum Qden]. interval with (i_prec 80). Qed.
Lemma ee_acc_23 : ee_bound 23 (200474893450909 # 40000000000000000)%Q.
Proof. unfold ee_bound, pow10neg, Q2R; cbn [Qnum Qden]. interval with (i_prec 80). Qed.
