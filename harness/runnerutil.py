"""C06/C12 machinery: run cutadapt as a subprocess (one or several cores) from the rebuilt working tree
with the protocol trace hook switched on, collect outputs, validate the recorded trace against the
extracted runner model (Model/Runner.v: replay)."""
import json
import os
import subprocess
import sys

from . import buildimpl, core
from . import sysutil as S


SPAWN_MAIN = ("import multiprocessing, sys; multiprocessing.set_start_method(%r); sys.argv[0] = 'cutadapt'; "
              "from cutadapt.cli import main_cli; main_cli()")


def run_cli(argv, d, cores, buffer_size=None, sched=None, timeout=60, trace=True, start_method=None, nofile=None):
    """returns dict(exit, stderr, timed_out, trace=[event lines]).  start_method: 'spawn'/'forkserver' -- the worker processes then
    get the pipeline (adapters, finders, writers) through pickle, as on platforms where that is the default.  nofile: soft limit
    on open files for the run"""
    env = buildimpl.impl_env()
    tpath = os.path.join(d, "trace.log")
    if os.path.exists(tpath):
        os.remove(tpath)
    if trace and cores > 1:
        env["CUTADAPT_VERIF_TRACE"] = tpath
        if sched is not None:
            env["CUTADAPT_VERIF_SCHED"] = str(sched)
    else:
        env.pop("CUTADAPT_VERIF_TRACE", None)
    cmd = [buildimpl.VENV_PY] + (["-c", SPAWN_MAIN % start_method] if start_method else ["-m", "cutadapt"]) + ["-j", str(cores)]
    if buffer_size is not None:
        cmd += ["--buffer-size", str(buffer_size)]
    cmd += argv
    import signal
    pre = None
    if nofile is not None:
        def pre():
            import resource
            hard = resource.getrlimit(resource.RLIMIT_NOFILE)[1]
            resource.setrlimit(resource.RLIMIT_NOFILE, (nofile, hard))
    p = subprocess.Popen(cmd, cwd=d, env=env, stdout=subprocess.PIPE, stderr=subprocess.PIPE, start_new_session=True, preexec_fn=pre)
    try:
        out, err = p.communicate(timeout=timeout)
        res = {"exit": p.returncode, "stderr": err.decode(errors="replace"), "stdout": out.decode(errors="replace"), "timed_out": False}
    except subprocess.TimeoutExpired:
        # kill the whole process group of this run (main, reader, workers) -- and nothing else
        try:
            os.killpg(p.pid, signal.SIGKILL)
        except OSError:
            pass
        out, err = p.communicate()
        res = {"exit": None, "stderr": (err or b"").decode(errors="replace"), "stdout": "", "timed_out": True}
    res["trace"] = []
    if os.path.exists(tpath):
        with open(tpath) as f:
            res["trace"] = [l.strip() for l in f if l.strip()]
    res["cmd"] = cmd[(3 if start_method else 2):]
    return res


def decompress(name, data):
    """content after decompression (by suffix); undecodable content is kept, marked"""
    import bz2, gzip, lzma
    try:
        if name.endswith(".gz"):
            return gzip.decompress(data)
        if name.endswith(".bz2"):
            return bz2.decompress(data)
        if name.endswith(".xz"):
            return lzma.decompress(data)
    except Exception as e:  # noqa
        return b"UNDECODABLE " + type(e).__name__.encode() + b" " + data
    return data


def collect_outputs(d, exclude=("report.json", "trace.log")):
    out = {}
    for f in sorted(os.listdir(d)):
        p = os.path.join(d, f)
        if os.path.isfile(p) and not f.startswith("in.") and f not in exclude:
            with open(p, "rb") as fh:
                out[f] = decompress(f, fh.read())
    return out


def clear_outputs(d):
    for f in os.listdir(d):
        p = os.path.join(d, f)
        if os.path.isfile(p) and not f.startswith("in."):
            os.remove(p)


def report_without_volatile(d):
    p = os.path.join(d, "report.json")
    if not os.path.exists(p):
        return None
    r = json.load(open(p))
    for k in ("cores", "command_line_arguments", "python_version", "cutadapt_version"):
        r.pop(k, None)
    return r


def validate_trace(trace, cores):
    """-> dict(accepted, total, terminal, ok, written, merged, chunks) via the extracted model"""
    events = []
    for l in trace:
        events.append(l)
        if l.startswith("recverr"):
            break  # the main process raises here; the children are being terminated
    sends = [int(l.split()[2]) for l in events if l.startswith("send ")]
    bads = sorted({int(l.split()[2]) for l in events if l.startswith("takebad ")})
    nchunks = (max(sends) + 1) if sends else 0
    rfail = ""
    if any(l == "rfail" for l in events):
        rfail = str(nchunks)
    # format detection failed: the main process gets the error on the format pipe before any worker exists
    ffail = bool(events) and events[-1] == "recverr" and not any(l.startswith("req") for l in events)
    if ffail:
        events = ["recverr"]
        rfail = ""
    line = "trace %d|%d|%s|%s|%s|%d" % (cores, nchunks, " ".join(map(str, bads)), rfail, ";".join(events), 1 if ffail else 0)
    out = core.model_run([line])[0]
    if out.startswith("ERROR"):
        return {"error": out, "accepted": 0, "total": len(events)}
    n, total, term, ok, wr, st = out.split("|")
    return {"accepted": int(n), "total": int(total), "terminal": term.strip() == "1", "ok": ok.strip() == "1",
            "written": [int(x) for x in wr.split()], "merged": int(st), "chunks": nchunks, "first_rejected": events[int(n)] if int(n) < len(events) else None}
