"""Checks of the system-level properties (single-end part): C03, C04, C10, C11, C15, C16, C17, C20.
Every check = proof obligations (ctx.coq) + correspondence of the extracted pipeline model with
cutadapt.cli.main on random valid option sets (focus differs per property) + an independent
oracle restating the property on the implementation's own outputs (search for failing inputs)."""
from fractions import Fraction
import json
import os

from . import core, buildimpl
from . import alignutil as U
from . import sysutil as S

# IUPAC complements (A-T, C-G, R-Y, K-M, B-V, D-H; S, W, N are their own), both cases; U is complemented to A
_PAIRS = "AT CG RY KM BV DH SS WW NN"
COMP = {}
for _p in _PAIRS.split():
    COMP[_p[0]], COMP[_p[1]] = _p[1], _p[0]
    COMP[_p[0].lower()], COMP[_p[1].lower()] = _p[1].lower(), _p[0].lower()
COMP["U"], COMP["u"] = "A", "a"


def revcomp(s):
    return "".join(COMP.get(c, c) for c in reversed(s))


def read_index(name):
    """generated read names are r<idx> plus optional comment; name-modifying options may add prefixes/suffixes"""
    import re

    tok = name.split()[0] if name.split() else name
    m = re.search(r"(?:^|_)r(\d+)(?=$|[_/;])", tok)
    return int(m.group(1)) if m else None


def is_sub(small, big):
    return small in big


# ------------------------------------------------------------------ oracles (property text on impl outputs)
def oracle_c03_actions(ent, d):
    """mask / lowercase / none against the trim run of the same command (implementation only): the bases that
    trim keeps must be exactly the ones left alone (upper-cased for lowercase), everything else N / lower case"""
    cfg, reads, res = ent["cfg"], ent["reads"], ent["impl"]
    if cfg.action not in ("mask", "lowercase", "none") or not cfg.adapters:
        return None
    c2 = S.Cfg.from_json(cfg.to_json())
    c2.action = "trim"
    c2.info_file = False
    # the stages after adapter trimming that cut the read are switched off in both runs: the comparison is about the adapter stage
    c2.poly_a, c2.length, c2.trim_n, c2.demux = False, None, False, False
    for k in ("min_len", "max_len", "max_n", "max_ee", "max_aer"):
        setattr(c2, k, None)
    for k in ("casava", "discard_trimmed", "discard_untrimmed", "untrimmed_output", "too_short_output", "too_long_output"):
        setattr(c2, k, False)
    c3 = S.Cfg.from_json(c2.to_json())
    c3.action = cfg.action
    a, b = S.run_impl(c2, reads, d), S.run_impl(c3, reads, d)
    if a["exit"] != 0 or b["exit"] != 0:
        return None
    for (n1, t, tq), (n2, m, mq) in zip(a["files"].get(0, []), b["files"].get(0, [])):
        if read_index(n1) != read_index(n2):
            return None
        if cfg.action == "none":
            continue
        ok = False
        for k in range(len(m) - len(t) + 1):
            if cfg.action == "mask":
                exp = "N" * k + t + "N" * (len(m) - k - len(t))
            else:
                exp = m[:k].lower() + t.upper() + m[k + len(t):].lower()
            if m == exp and (cfg.action == "mask" or m.upper()[k:k + len(t)] == t.upper()):
                ok = True
                break
        if not ok:
            return "action %s wrote %r although trim keeps %r: changes are not exactly outside the kept part" % (cfg.action, m, t)
    return None


def oracle_c03_retain(ent):
    """--action=retain, one round, nothing else cutting the read: what is written is the read from the beginning of the first adapter
    occurrence to the end of the last one (5' adapter: occurrence and everything behind it; 3' adapter: everything up to the end of
    the occurrence; linked: from the 5' occurrence to the end of the 3' occurrence) -- read off the info file of the same run"""
    cfg, reads, res = ent["cfg"], ent["reads"], ent["impl"]
    if cfg.action != "retain" or cfg.times != 1 or not cfg.info_file or res.get("info") is None or cfg.revcomp:
        return None
    if cfg.cuts or cfg.qcut not in (None, "0") or cfg.nextseq is not None or cfg.poly_a or cfg.length is not None or cfg.trim_n:
        return None
    objs = {a.name: a for a in ent["objs"]}
    rows = {}
    for row in res["info"]:
        rows.setdefault(read_index(row[0]), []).append(row)
    out = {}
    for key, recs in res["files"].items():
        for name, seq, qual in recs:
            out[read_index(name)] = seq
    for idx, (name, seq, qual) in enumerate(reads):
        rs = rows.get(idx)
        if idx not in out or not rs or rs[0][1] == "-1":
            continue
        lo, hi = None, None
        off = 0
        for row in rs:
            start, end = int(row[2]), int(row[3])
            part = row[7].split(";")[1] if ";" in row[7] else None
            ad = objs.get(row[7].split(";")[0])
            if ad is None:
                return None
            front = part == "1" or (part is None and removes_prefix(ad, start))
            if front:
                lo = off + start if lo is None else lo
                hi = len(seq) if hi is None else hi
                off += end
            else:
                hi = off + end
                lo = 0 if lo is None else lo
        want = seq[lo:hi]
        if out[idx] != want:
            return "read %r: retain wrote %r, the adapter occurrences span [%d,%d) = %r" % (seq, out[idx], lo, hi, want)
    return None


def linked_retain_case(rng):
    """--action=retain with linked adapters whose occurrences differ in length from the adapters: a 5' part cut off by the beginning
    of the read, a 3' part with an insertion or deletion, and sequence behind it"""
    fr = U.rand_seq(rng, 8, "ACGT")
    bk = U.rand_seq(rng, rng.choice([8, 10]), "ACGT")
    flag = rng.choice(["-g", "-a"])
    cfg = S.Cfg(adapters=((flag, "lk=%s...%s" % (fr, bk)),), error_rate=rng.choice([0.15, 0.2]), action="retain", info_file=True,
                fasta=rng.random() < 0.3, overlap=3)
    reads = []
    for i in range(rng.choice([5, 8])):
        f2 = fr[rng.choice([0, 0, 2, 3, 4]):]
        b2 = bk
        r = rng.random()
        if r < 0.35:
            p_ = rng.randrange(1, len(bk) - 1)
            b2 = bk[:p_] + bk[p_ + 1:]
        elif r < 0.7:
            p_ = rng.randrange(1, len(bk) - 1)
            b2 = bk[:p_] + rng.choice("ACGT") + bk[p_:]
        seq = f2 + U.rand_seq(rng, rng.choice([6, 10, 15]), "ACGT") + b2 + U.rand_seq(rng, rng.choice([0, 4, 9]), "ACGT")
        reads.append(("r%d" % i, seq, None if cfg.fasta else "".join(chr(33 + rng.randint(2, 40)) for _ in seq)))
    return cfg, reads


def oracle_c03(ent):
    cfg, reads, res = ent["cfg"], ent["reads"], ent["impl"]
    by_idx = {i: r for i, r in enumerate(reads)}
    for key, recs in res["files"].items():
        for name, seq, qual in recs:
            idx = read_index(name)
            if idx is None or idx not in by_idx:
                return "output record %r cannot be attributed to an input read" % name
            iname, iseq, iqual = by_idx[idx]
            if (qual is None) != (iqual is None):
                return "record %r: qualities appear/disappear" % name
            if qual is not None and len(qual) != len(seq):
                return "record %r: sequence length %d but %d qualities" % (name, len(seq), len(qual))
            bases = [(iseq, iqual)]
            if cfg.revcomp:  # the orientation marker can be stripped again (--strip-suffix ' rc'): accept either orientation
                bases.append((revcomp(iseq), None if iqual is None else iqual[::-1]))
            ok = False
            for bseq, bqual in bases:
                if cfg.action in ("mask", "lowercase") and cfg.adapters:
                    # length-preserving edits, then later stages may slice: compare position-wise inside some window
                    cands = [k for k in range(len(bseq) - len(seq) + 1)] if len(seq) <= len(bseq) else []
                    for k in cands:
                        win = bseq[k:k + len(seq)]
                        if cfg.action == "mask":
                            good = all(a == b or a == "N" for a, b in zip(seq, win))
                        else:
                            good = seq.upper() == win.upper()
                        if good and (qual is None or qual_ok(qual, bqual[k:k + len(seq)], cfg)):
                            ok = True
                            break
                else:
                    start = 0
                    while True:
                        k = bseq.find(seq, start)
                        if k < 0:
                            break
                        if qual is None or qual_ok(qual, bqual[k:k + len(seq)], cfg):
                            ok = True
                            break
                        start = k + 1
                if ok:
                    break
            if not ok:
                return "record %r (%s) is not a slice of the input read with qualities in step" % (name, seq[:30])
    return None


def qual_ok(q, base_q, cfg):
    if len(q) != len(base_q):
        return False
    if cfg.zero_cap:
        return all(a == b or (ord(b) < cfg.qbase and ord(a) == cfg.qbase) for a, b in zip(q, base_q))
    return q == base_q


def quality_trimmed_by_stages(cfg, reads, d):
    """bases removed by NextSeq + quality trimming, measured on the implementation: run the cut stage alone,
    then cut + NextSeq/quality, and add up the length differences"""
    if cfg.qcut in (None, "0") and cfg.nextseq is None:
        return None
    c_cut = S.Cfg(fasta=cfg.fasta, qbase=cfg.qbase, cuts=cfg.cuts)
    c_q = S.Cfg(fasta=cfg.fasta, qbase=cfg.qbase, cuts=cfg.cuts, qcut=cfg.qcut, nextseq=cfg.nextseq)
    a = S.run_impl(c_cut, reads, d)
    b = S.run_impl(c_q, reads, d)
    if a["exit"] != 0 or b["exit"] != 0:
        return None
    return sum(len(s) for _, s, _ in a["files"].get(0, [])) - sum(len(s) for _, s, _ in b["files"].get(0, []))


def oracle_c04(ent, d=None):
    cfg, reads, res = ent["cfg"], ent["reads"], ent["impl"]
    if d is not None:
        q = quality_trimmed_by_stages(cfg, reads, d)
        got = res["report"]["basepair_counts"]["quality_trimmed"]
        if q is not None and (got or 0) != q:
            return "report says %r bp quality-trimmed, the quality-trimming stages removed %d" % (got, q)
    rep = res["report"]
    rc, bp = rep["read_counts"], rep["basepair_counts"]
    # the totals over both reads are the sums of the per-read figures: a number whenever one of them is a number (0 included)
    for key in ("quality_trimmed", "poly_a_trimmed"):
        parts = [bp.get(key + "_read1"), bp.get(key + "_read2")]
        want = None if all(x is None for x in parts) else sum(x for x in parts if x is not None)
        if bp.get(key) != want:
            return "report: %s is %r, the figures per read are %r" % (key, bp.get(key), parts)
    filt = {k: v for k, v in rc["filtered"].items() if v is not None}
    if rc["input"] != len(reads):
        return "input count %d but %d reads" % (rc["input"], len(reads))
    if rc["input"] != rc["output"] + sum(filt.values()):
        return "input %d != written %d + filtered %r" % (rc["input"], rc["output"], filt)
    sink_files = [k for k in res["files"] if k == 0 or str(k).startswith("name:") or (k == 3 and cfg.demux)]
    written = sum(len(res["files"][k]) for k in sink_files)
    written_bp = sum(len(s) for k in sink_files for (_, s, _) in res["files"][k])
    if written != rc["output"]:
        return "report says %d written, output files hold %d" % (rc["output"], written)
    if written_bp != bp["output"]:
        return "report says %d bp written, output files hold %d" % (bp["output"], written_bp)
    if bp["input"] != sum(len(s) for _, s, _ in reads):
        return "input bp %d != sum over reads" % bp["input"]
    seen = {}
    for k, recs in res["files"].items():
        for name, _, _ in recs:
            idx = read_index(name)
            seen[idx] = seen.get(idx, 0) + 1
    dup = [i for i, c in seen.items() if c > 1]
    if dup:
        return "read r%s written %d times" % (dup[0], seen[dup[0]])
    redirected = sum(len(res["files"].get(k, [])) for k in (1, 2) ) + (len(res["files"].get(3, [])) if not cfg.demux else 0)
    if written + redirected != len(seen):
        return "records in files do not add up"
    lost = len(reads) - len(seen)
    unredirected = sum(filt.values()) - redirected
    if lost != unredirected:
        return "%d reads are in no file but %d are counted as filtered without a redirect file" % (lost, unredirected)
    return None


def final_reads_without_filters(ent, d):
    """the fully modified reads: the same command without any filter option (implementation run)"""
    cfg = ent["cfg"]
    c2 = S.Cfg.from_json(cfg.to_json())
    for k in ("min_len", "max_len", "max_n", "max_ee", "max_aer"):
        setattr(c2, k, None)
    for k in ("casava", "discard_trimmed", "discard_untrimmed", "untrimmed_output", "too_short_output", "too_long_output", "demux"):
        setattr(c2, k, False)
    c2.info_file = True
    res = S.run_impl(c2, ent["reads"], d)
    if res["exit"] != 0:
        return None, None
    trimmed = {}
    for row in res["info"] or []:
        idx = read_index(row[0])
        trimmed[idx] = trimmed.get(idx, False) or (row[1] != "-1")
    return res["files"].get(0, []), trimmed


def expected_errors_py(qual, base=33):
    """the sum of 10^(-Q/10) with 40 significant digits (then rounded once): exact enough to tell 1 + 5e-10 from 1"""
    from decimal import Decimal, getcontext

    getcontext().prec = 40
    return float(sum(Decimal(10) ** (Decimal(-(ord(c) - base)) / Decimal(10)) for c in qual))


def oracle_c11(ent, d):
    cfg, res = ent["cfg"], ent["impl"]
    final, trimmed = final_reads_without_filters(ent, d)
    if final is None:
        return None
    expect = {0: [], 1: [], 2: [], 3: []}
    cats = {}
    for name, seq, qual in final:
        idx = read_index(name)
        t = trimmed.get(idx, False)
        n = len(seq)
        cat = None
        if cfg.min_len is not None and n < cfg.min_len:
            cat, dest = "too_short", (1 if cfg.too_short_output else None)
        elif cfg.max_len is not None and n > cfg.max_len:
            cat, dest = "too_long", (2 if cfg.too_long_output else None)
        elif cfg.max_n is not None and ((seq.lower().count("n") > cfg.max_n) if cfg.max_n >= 1 else
                                         (n > 0 and Fraction(seq.lower().count("n"), n) > Fraction(repr(float(cfg.max_n))))):
            cat, dest = "too_many_n", None
        elif cfg.max_ee is not None and qual is not None and near_gt(expected_errors_py(qual), cfg.max_ee) is True:
            cat, dest = "too_many_expected_errors", None
        elif cfg.max_aer is not None and qual is not None and n > 0 and aer_above(qual, cfg.max_aer) is True:
            cat, dest = "too_high_average_error_rate", None
        elif cfg.casava and name.partition(" ")[2][1:4] == ":Y:":
            cat, dest = "casava_filtered", None
        elif cfg.demux:
            # the demultiplexer is the sink; with --discard-untrimmed it counts untrimmed reads as filtered
            cat, dest = (("discard_untrimmed", None) if (cfg.discard_untrimmed and not t) else (None, None))
        elif cfg.discard_trimmed and t:
            cat, dest = "discard_trimmed", None
        elif cfg.discard_untrimmed and not t:
            cat, dest = "discard_untrimmed", None
        elif cfg.untrimmed_output and not t:
            cat, dest = "discard_untrimmed", 3
        if cat is None:
            if not cfg.demux:
                expect[0].append((name, seq, qual))
        else:
            cats[cat] = cats.get(cat, 0) + 1
            if dest is not None:
                expect[dest].append((name, seq, qual))
    if cfg.max_ee is not None or cfg.max_aer is not None:
        # float boundary cases are decided by the PrimFloat twin, not by this decimal oracle
        amb = any(q is not None and (near_gt(expected_errors_py(q), cfg.max_ee) is None if cfg.max_ee is not None else False) for _, s, q in final)
        amb = amb or any(q is not None and len(s) and (aer_above(q, cfg.max_aer) is None if cfg.max_aer is not None else False) for _, s, q in final)
        if amb:
            return None
    got = {k: v for k, v in res["report"]["read_counts"]["filtered"].items() if v}
    if got != cats:
        return "filter categories %r, documented criteria in order give %r" % (got, cats)
    for k in (0, 1, 2, 3):
        if cfg.demux and k in (0, 3):
            continue
        if res["files"].get(k, []) != expect[k]:
            return "file %d holds %d records, documented rule gives %d" % (k, len(res["files"].get(k, [])), len(expect[k]))
    return None


def aer_above(qual, thr):
    """expected errors per base above thr?  1, 2, 4 or 8 bases of one and the same quality: the sum of equal doubles and the division
    are exact, so the rate is the single term itself and even equality with the threshold is decided ('above' is strict)"""
    n = len(qual)
    if n in (1, 2, 4, 8) and len(set(qual)) == 1:
        return expected_errors_py(qual[0]) > thr
    return near_gt(expected_errors_py(qual) / n, thr)


def near_gt(x, thr):
    """x > thr; None when too close to call for a sum of doubles (the exact sum is within a few ulps of the computed one)"""
    if abs(x - thr) <= 1e-12 * max(1.0, abs(thr)):
        return None
    return x > thr


STAGE_KEYS = [
    ("cuts", ()), ("nextseq", None), ("qcut", None), ("adapters", ()), ("poly_a", False), ("length", None), ("trim_n", False),
    ("length_tag", None), ("strip_suffix", ()), ("prefix_suffix", None), ("zero_cap", False), ("rename", None),
]


def oracle_c10(ent, d):
    """compose single-stage implementation runs in the documented order"""
    cfg, reads = ent["cfg"], ent["reads"]
    if cfg.demux or cfg.revcomp and cfg.prefix.find("{name}") >= 0:
        return None
    if cfg.rename is not None and cfg.revcomp:
        return None  # with --rename the ' rc' name suffix is replaced by the {rc} placeholder: not composable from isolated runs
    cur = list(reads)
    names_suffix_rc = False
    for key, default in STAGE_KEYS:
        c2 = S.Cfg(fasta=cfg.fasta, qbase=cfg.qbase)
        active = False
        if key == "prefix_suffix":
            if "{name}" in cfg.prefix or "{name}" in cfg.suffix:
                return None  # needs the match of an earlier stage: not expressible as an isolated run
            if cfg.prefix or cfg.suffix:
                c2.prefix, c2.suffix, active = cfg.prefix, cfg.suffix, True
        elif key == "adapters":
            if cfg.adapters:
                for k in ("adapters", "error_rate", "overlap", "no_indels", "no_wild", "read_wild", "times", "action", "revcomp"):
                    setattr(c2, k, getattr(cfg, k))
                active = True
        elif key == "strip_suffix":
            # given several times, the suffixes are removed one after the other in the order given: one run per suffix
            for suf in cfg.strip_suffix:
                c2 = S.Cfg(fasta=cfg.fasta, qbase=cfg.qbase, strip_suffix=(suf,))
                res = S.run_impl(c2, cur, d)
                if res["exit"] != 0:
                    return None
                cur = res["files"].get(0, [])
            continue
        else:
            v = getattr(cfg, key)
            if v != default and v is not None and v != ():
                setattr(c2, key, v)
                active = True
        if not active or (key == "qcut" and str(cfg.qcut) == "0"):   # '-q 0' switches the step off (as '-Q 0' is documented to)
            continue
        if key in ("nextseq", "qcut") and not cfg.fasta and all(q is not None for _, _, q in cur):
            # the two quality stages are computed from the rule itself (suffix sums as in the property text), not by a run
            from .props import c13 as rule
            nxt = []
            for nm, sq, ql in cur:
                if key == "nextseq":
                    a, b = 0, rule.spec_3p([(cfg.nextseq - 1) if bb == "G" else (ord(x) - cfg.qbase) for bb, x in zip(sq, ql)], cfg.nextseq)
                else:
                    parts = [int(x) for x in str(cfg.qcut).split(",")]
                    cf, cb = (0, parts[0]) if len(parts) == 1 else parts
                    a, b = rule.spec_index([ord(x) - cfg.qbase for x in ql], cf, cb)
                nxt.append((nm, sq[a:b], ql[a:b]))
            cur = nxt
            continue
        res = S.run_impl(c2, cur, d)
        if res["exit"] != 0:
            return None
        cur = res["files"].get(0, [])
    # the full run, without filters (same options, all at once)
    c3 = S.Cfg.from_json(cfg.to_json())
    for k in ("min_len", "max_len", "max_n", "max_ee", "max_aer"):
        setattr(c3, k, None)
    for k in ("casava", "discard_trimmed", "discard_untrimmed", "untrimmed_output", "too_short_output", "too_long_output", "demux", "info_file"):
        setattr(c3, k, False)
    full = S.run_impl(c3, reads, d)
    if full["exit"] != 0:
        return None
    if full["files"].get(0, []) != cur:
        a, b = full["files"].get(0, []), cur
        for x, y in zip(a, b):
            if x != y:
                return "all options at once give %r, the stages composed in the documented order give %r" % (x, y)
        return "all options at once give %d records, composed stages %d" % (len(a), len(b))
    return None


def oracle_c15(ent, d):
    cfg, res = ent["cfg"], ent["impl"]
    if not cfg.demux:
        return None
    objs = ent["objs"]
    ext = cfg.ext()
    for a in objs:
        if "name:" + a.name not in res["files"]:
            return "no output file for adapter %s" % a.name
    if not cfg.discard_untrimmed and not cfg.untrimmed_output and "name:unknown" not in res["files"]:
        return "no 'unknown' output file"
    # routing: last match per read from the info file of the same command
    c2 = S.Cfg.from_json(cfg.to_json())
    c2.info_file = True
    c2.demux = False
    c2.discard_untrimmed = c2.untrimmed_output = False
    plain = S.run_impl(c2, ent["reads"], d)
    if plain["exit"] != 0:
        return None
    last = {}
    for row in plain["info"] or []:
        idx = read_index(row[0])
        if row[1] != "-1":
            last[idx] = row[7].split(";")[0]
    for key, recs in res["files"].items():
        if key in (1, 2):  # redirect files of the length filters: not the demultiplexer's business
            continue
        for name, seq, qual in recs:
            idx = read_index(name)
            want = "name:" + last[idx] if idx in last else (3 if cfg.untrimmed_output else "name:unknown")
            if key != want:
                return "read %r is in %r, last match says %r" % (name, key, want)
    if not (cfg.discard_untrimmed or cfg.untrimmed_output):
        a = sorted(r for k, recs in res["files"].items() if str(k).startswith("name:") for r in recs)
        b = sorted(plain["files"].get(0, []))
        if a != b:
            return "multiset of demultiplexed records differs from the output without {name}"
    return None


def oracle_c16(ent):
    """API level: the stage's choice vs the documented rule, on the implementation"""
    cfg = ent["cfg"]
    if not cfg.revcomp or not cfg.adapters:
        return None
    from cutadapt.modifiers import AdapterCutter, ReverseComplementer, ModificationInfo
    from dnaio import SequenceRecord

    action = None if cfg.action == "none" else cfg.action
    for name, seq, qual in ent["reads"]:
        def cutter():
            return AdapterCutter(S.adapter_objects(cfg), cfg.times, action, False)

        r = SequenceRecord(name, seq, qual)
        fwd, fm = cutter().match_and_trim(SequenceRecord(name, seq, qual))
        rev, rm = cutter().match_and_trim(SequenceRecord(name, seq, qual).reverse_complement())
        fs, rs = sum(m.score for m in fm), sum(m.score for m in rm)
        want_rc = bool(rm) and rs > fs
        rcm = ReverseComplementer(cutter())
        info = ModificationInfo(r)
        try:
            got = rcm(SequenceRecord(name, seq, qual), info)
        except AssertionError:
            return "ReverseComplementer fails its own assertion on read %r" % seq
        exp = rev if want_rc else fwd
        exp_name = name + (" rc" if want_rc else "")
        if (got.name, got.sequence, got.qualities) != (exp_name, exp.sequence, exp.qualities) or bool(info.is_rc) != want_rc \
                or rcm.reverse_complemented != int(want_rc):
            return "read %r: forward score %d, reverse score %d (matches: %d): stage returned %r rc=%r" % (seq, fs, rs, len(rm), got.sequence, info.is_rc)
    return None


def oracle_c16_after_pre(ent, d):
    """the orientation rule on the reads as they reach the adapter stage: with -u / -q / --nextseq-trim in front of it, --revcomp looks at
    (and reverse-complements) the read those steps left, not the input read.  The command-line run reduced to these steps and the adapters
    must write what the rule gives for the pre-processed reads"""
    cfg = ent["cfg"]
    if not cfg.revcomp or not cfg.adapters or not (cfg.cuts or cfg.nextseq is not None or cfg.qcut not in (None, "0")):
        return None
    from cutadapt.modifiers import AdapterCutter
    from dnaio import SequenceRecord

    pre = S.Cfg(fasta=cfg.fasta, qbase=cfg.qbase, cuts=cfg.cuts, nextseq=cfg.nextseq, qcut=cfg.qcut)
    core_ = S.Cfg(fasta=cfg.fasta, qbase=cfg.qbase, cuts=cfg.cuts, nextseq=cfg.nextseq, qcut=cfg.qcut, revcomp=True)
    for k in ("adapters", "error_rate", "overlap", "no_indels", "no_wild", "read_wild", "times", "action"):
        setattr(core_, k, getattr(cfg, k))
    a, b = S.run_impl(pre, ent["reads"], d), S.run_impl(core_, ent["reads"], d)
    if a["exit"] != 0 or b["exit"] != 0 or len(a["files"].get(0, [])) != len(ent["reads"]) or len(b["files"].get(0, [])) != len(ent["reads"]):
        return None
    action = None if cfg.action == "none" else cfg.action
    for (name, seq, qual), (n2, got, gq) in zip(a["files"][0], b["files"][0]):
        def cutter():
            return AdapterCutter(S.adapter_objects(cfg), cfg.times, action, False)
        fwd, fm = cutter().match_and_trim(SequenceRecord(name, seq, qual))
        rev, rm = cutter().match_and_trim(SequenceRecord(name, seq, qual).reverse_complement())
        fs, rs = sum(m.score for m in fm), sum(m.score for m in rm)
        exp = rev if (bool(rm) and rs > fs) else fwd
        if (got, gq) != (exp.sequence, exp.qualities):
            return "after the steps in front of the adapters the read is %r; forward score %d, reverse score %d: the rule gives %r, the run wrote %r" % (seq, fs, rs, exp.sequence, got)
    return None


def oracle_c17(ent):
    cfg, res, reads = ent["cfg"], ent["impl"], ent["reads"]
    if not cfg.info_file or res["info"] is None:
        return None
    objs = {a.name: a for a in ent["objs"]}
    rows = {}
    for row in res["info"]:
        rows.setdefault(read_index(row[0]), []).append(row)
    # bases removed before the adapter stage at the 5' end / 3' end of the input read (known finding F17: the info
    # file applies the coordinates found in the shortened read to the original read, or to its reverse complement)
    pre5 = any(c > 0 for c in cfg.cuts) or (cfg.qcut is not None and "," in cfg.qcut and not cfg.qcut.startswith("0,"))
    pre3 = any(c < 0 for c in cfg.cuts) or (cfg.qcut not in (None, "0")) or cfg.nextseq is not None
    for idx, (name, seq, qual) in enumerate(reads):
        rs = rows.get(idx)
        if not rs:
            return "no info row for read %r" % name
        if rs[0][1] == "-1":
            if len(rs) != 1:
                return "read %r: -1 row plus other rows" % name
            continue
        cur_s, cur_q = seq, qual or ""
        if rs[0][-1] == "1":
            cur_s, cur_q = revcomp(seq), cur_q[::-1]
        for row in rs:
            if len(row) != 12:
                return "match row with %d fields" % len(row)
            errors, start, end = int(row[1]), int(row[2]), int(row[3])
            left, mid, right = row[4], row[5], row[6]
            cmp_s = cur_s.upper() if cfg.action == "lowercase" else cur_s
            whole = left + mid + right
            if (whole.upper() if cfg.action == "lowercase" else whole) != cmp_s:
                return "read %r: fields 5-7 do not concatenate to the read / previous remainder" % name
            if (row[8] + row[9] + row[10]) != cur_q:
                return "read %r: quality fields do not concatenate" % name
            if mid != whole[start:end] or len(left) != start:
                return "read %r: middle field is not the stretch [start,end)" % name
            aname = row[7].split(";")[0]
            part = row[7].split(";")[1] if ";" in row[7] else None
            ad = objs.get(aname)
            if ad is not None:
                single = ad
                if part == "1":
                    single = ad.front_adapter
                elif part == "2":
                    single = ad.back_adapter
                ds = aligned_distances(single, mid)
                if ds is not None and errors not in ds:
                    what = "read %r: middle field %r does not align to adapter %s with the reported %d errors (possible: %s)" % (name, mid, aname, errors, sorted(ds))
                    if (pre5 and row[-1] != "1") or (pre3 and row[-1] == "1"):
                        return "F17:" + what
                    return what
            # next round / second part of a linked adapter sees what this one left
            is_front = part == "1" or (part is None and ad is not None and removes_prefix(ad, start))
            if is_front:
                cur_s, cur_q = whole[end:] if True else cur_s, cur_q[end:]
                cur_s = (left + mid + right)[end:]
            else:
                cur_s, cur_q = (left + mid + right)[:start], cur_q[:start]
            if cfg.action == "lowercase":
                cur_s = cur_s.upper()
    return None


def removes_prefix(ad, start):
    import cutadapt.adapters as A

    if isinstance(ad, A.AnywhereAdapter):
        return start == 0
    return isinstance(ad, A.FrontAdapter)


def aligned_distances(ad, mid):
    """the set of error counts with which [mid] aligns to some part of the adapter within its tolerance
    (the info file does not say which part of the adapter was aligned).  None if too costly."""
    seq = ad.sequence
    if len(seq) > 14 or len(mid) > 30:
        return None
    eq = U.char_eq(ad.adapter_wildcards, ad.read_wildcards)
    out = set()
    import cutadapt.adapters as A

    # an anchored adapter occurs in full
    whole = isinstance(ad, (A.PrefixAdapter, A.SuffixAdapter))
    for a0 in ([0] if whole else range(len(seq) + 1)):
        for a1 in ([len(seq)] if whole else range(a0, len(seq) + 1)):
            part = seq[a0:a1]
            d = U.edit_distance(part, mid, eq) if ad.indels else U.hamming(part, mid, eq)
            if d is not None and d <= int(ad.max_error_rate * U.non_n(part, ad.adapter_wildcards)):
                out.add(d)
    return out


def oracle_c20(ent):
    cfg, res = ent["cfg"], ent["impl"]
    rep = res["report"]
    objs = ent["objs"]
    import cutadapt.adapters as A

    for a, st in zip(objs, rep["adapters_read1"]):
        for endkey, single in (("five_prime_end", getattr(a, "front_adapter", a)), ("three_prime_end", getattr(a, "back_adapter", a))):
            e = st[endkey]
            if e is None or e["error_lengths"] is None:
                continue
            rate, n = e["error_rate"], single.effective_length
            lens = e["error_lengths"]
            for L in range(1, n + 1):
                i = sum(1 for x in lens if x < L)
                if i != int(L * rate):
                    return "allowed-errors ranges %r: length %d is in range %d, int(L*rate) = %d" % (lens, L, i, int(L * rate))
    if not cfg.info_file or res["info"] is None:
        return None
    if cfg.cuts or cfg.qcut not in (None, "0") or cfg.nextseq is not None:
        return None  # the info file shows the untrimmed input read: removed lengths cannot be read off it
    # tally from the info file of the same run
    tall = {a.name: {"five_prime_end": {}, "three_prime_end": {}} for a in objs}
    tbase = {a.name: {"A": 0, "C": 0, "G": 0, "T": 0, "": 0} for a in objs}
    nrc = {a.name: 0 for a in objs}
    by_read_last = {}
    for row in res["info"]:
        if row[1] == "-1":
            continue
        aname = row[7].split(";")[0]
        part = row[7].split(";")[1] if ";" in row[7] else None
        ad = {a.name: a for a in objs}.get(aname)
        if ad is None:
            return "info row names unknown adapter %r" % aname
        errors, start, end = int(row[1]), int(row[2]), int(row[3])
        whole = row[4] + row[5] + row[6]
        front = part == "1" or (part is None and removes_prefix(ad, start))
        key = "five_prime_end" if front else "three_prime_end"
        ln = end if front else len(whole) - start
        tall[aname][key].setdefault(ln, {}).setdefault(errors, 0)
        tall[aname][key][ln][errors] += 1
        if not front:
            # the base in front of a removed 3' adapter: A, C, G, T, or "" for anything else / none
            b_ = whole[start - 1:start] if start > 0 else ""
            tbase[aname][b_ if b_ in ("A", "C", "G", "T") else ""] += 1
        if row[-1] == "1" and part in (None, "1"):
            nrc[aname] += 1
        elif row[-1] == "1" and part == "2" and by_read_last.get(row[0]) != aname + ";1":
            nrc[aname] += 1
        by_read_last[row[0]] = row[7]
    for a, st in zip(objs, rep["adapters_read1"]):
        tot = 0
        for key in ("five_prime_end", "three_prime_end"):
            got = {} if st[key] is None else {r["len"]: {i: c for i, c in enumerate(r["counts"]) if c} for r in st[key]["trimmed_lengths"]}
            want = {ln: dict(d) for ln, d in tall[a.name][key].items()}
            if got != want:
                return "adapter %s %s: report %r, tally of the info file %r" % (a.name, key, got, want)
            tot += sum(sum(d.values()) for d in want.values())
        if st["total_matches"] != tot:
            return "adapter %s: total_matches %d, tally %d" % (a.name, st["total_matches"], tot)
        if st["three_prime_end"] is not None:
            gotb = st["three_prime_end"].get("adjacent_bases")
            wantb = tbase[a.name] if sum(tbase[a.name].values()) else None
            if gotb != wantb:
                return "adapter %s: bases preceding removed 3' adapters %r, tally of the info file %r" % (a.name, gotb, wantb)
        if (st["on_reverse_complement"] or 0) != nrc[a.name]:
            return "adapter %s: on_reverse_complement %r, tally %d" % (a.name, st["on_reverse_complement"], nrc[a.name])
    return None


def oracle_c09_reaching(ent, d):
    """the same rule on the reads as they REACH the adapter stage (after -u, --nextseq-trim, -q): what an adapter sees there can
    differ in kind from the raw read (an adapter covering the whole remaining read, say)"""
    cfg = ent["cfg"]
    if not cfg.adapters or not (cfg.cuts or cfg.nextseq is not None or cfg.qcut is not None) or cfg.revcomp:
        return None
    pre = S.Cfg(fasta=cfg.fasta, qbase=cfg.qbase, cuts=cfg.cuts, nextseq=cfg.nextseq, qcut=cfg.qcut)
    r = S.run_impl(pre, ent["reads"], d)
    if r["exit"] != 0 or len(r["files"].get(0, [])) != len(ent["reads"]):
        return None
    why = oracle_c09({"cfg": cfg, "reads": r["files"][0]})
    return None if why is None else "after the steps in front of the adapters: " + why


def oracle_c09(ent):
    """API level, on the implementation: candidates = match_to of every single adapter; the documented rule picks one;
    rounds continue on the trimmed read; the cutter must agree."""
    cfg = ent["cfg"]
    if not cfg.adapters:
        return None
    import cutadapt.adapters as A
    from cutadapt.modifiers import AdapterCutter
    from dnaio import SequenceRecord

    action = None if cfg.action == "none" else cfg.action
    objs = S.adapter_objects(cfg)
    cutter = AdapterCutter(objs, cfg.times, action, False)

    def pieces(m):
        return [x for x in (m.front_match, m.back_match) if x is not None] if isinstance(m, A.LinkedMatch) else [m]

    def desc(m):
        return tuple((type(x).__name__, x.astart, x.astop, x.rstart, x.rstop, x.score, x.errors) for x in pieces(m)) + (m.adapter.name,)

    for name, seq, qual in ent["reads"]:
        cur = seq.upper() if action == "lowercase" else seq
        lo, hi = 0, len(cur)
        chosen = []
        for _ in range(cfg.times):
            cands = []
            for a in objs:
                if isinstance(a, A.LinkedAdapter):
                    fm = a.front_adapter.match_to(cur)
                    rest = cur[fm.rstop:] if fm is not None else cur
                    bm = a.back_adapter.match_to(rest)
                    if (fm is None and a.front_required) or (bm is None and a.back_required) or (fm is None and bm is None):
                        cands.append(None)
                    else:
                        cands.append(("L", a, fm, bm))
                else:
                    m = a.match_to(cur)
                    cands.append(None if m is None else ("S", a, m))
            best = None
            for c in cands:
                if c is None:
                    continue
                sc = sum(x.score for x in c[2:] if x is not None)
                er = sum(x.errors for x in c[2:] if x is not None)
                if best is None or sc > best[0] or (sc == best[0] and er < best[1]):
                    best = (sc, er, c)
            if best is None:
                break
            c = best[2]
            chosen.append(c)
            for x in c[2:]:
                if x is None:
                    continue
                if isinstance(x, A.RemoveBeforeMatch):
                    lo, cur = lo + x.rstop, cur[x.rstop:]
                else:
                    hi, cur = lo + x.rstart, cur[: x.rstart]
        rec = SequenceRecord(name, seq, qual)
        res, ms = cutter.match_and_trim(rec)
        want = [tuple((type(x).__name__, x.astart, x.astop, x.rstart, x.rstop, x.score, x.errors) for x in c[2:] if x is not None) + (c[1].name,) for c in chosen]
        if [desc(m) for m in ms] != want:
            return "read %r: applied matches %r, documented rule gives %r" % (seq, [desc(m) for m in ms], want)
        base = seq.upper() if action == "lowercase" else seq
        if not chosen:
            if res.sequence != base:
                return "read %r changed although nothing matched" % seq
            continue
        if action == "trim" and res.sequence != base[lo:hi]:
            return "read %r: trimmed to %r, composing the rounds gives %r" % (seq, res.sequence, base[lo:hi])
        if action is None and res.sequence != seq:
            return "action none changed the read %r" % seq
        if action == "mask" and res.sequence != "N" * lo + seq[lo:hi] + "N" * (len(seq) - hi):
            return "read %r: mask gives %r, union of removed parts is outside [%d,%d)" % (seq, res.sequence, lo, hi)
        if action == "lowercase" and res.sequence != base[:lo].lower() + base[lo:hi].upper() + base[hi:].lower():
            return "read %r: lowercase gives %r, kept interval is [%d,%d)" % (seq, res.sequence, lo, hi)
        if action in ("mask", "lowercase", None) and res.qualities != qual:
            return "read %r: qualities changed by a non-trimming action" % seq
    return None


# ------------------------------------------------------------------ the check driver
FOCUS = {
    "C03": ("action", "cut", "qual", "length", "trimn", "adapters", "zerocap", "revcomp", "polya", "times"),
    "C04": ("filters", "adapters", "demux", "qual", "nextseq"),
    "C09": ("adapters", "times", "action", "info"),
    "C10": ("cut", "qual", "nextseq", "adapters", "polya", "length", "trimn", "names", "zerocap"),
    "C11": ("filters", "adapters"),
    "C15": ("demux", "adapters"),
    "C16": ("revcomp", "adapters", "times", "action"),
    "C17": ("info", "adapters", "times", "revcomp", "cut", "qual"),
    "C20": ("info", "adapters", "times", "revcomp"),
}
SIZES = {"C09": (400, 6000), "C03": (500, 8000), "C04": (500, 8000), "C10": (350, 5000), "C11": (400, 6000), "C15": (400, 5000), "C16": (400, 6000),
         "C17": (500, 8000), "C20": (500, 8000)}


def adjust(pid, rng, cfg):
    """property-specific nudges of a random option set"""
    if pid == "C15" and cfg.adapters and not cfg.discard_trimmed:
        cfg.demux = True
        cfg.demux_twice = rng.random() < 0.3
    if pid in ("C17", "C20"):
        cfg.info_file = True
    if pid == "C09":
        cfg.revcomp = False
        if len(cfg.adapters) == 1 and rng.random() < 0.7:   # near-ties need several adapters: add variants of the first
            flag, spec = cfg.adapters[0]
            if "..." not in spec and "=" in spec:
                core_ = spec.split("=", 1)[1]
                cfg.adapters = cfg.adapters + ((flag, "ad1=" + core_), (flag if rng.random() < 0.5 else "-b", "ad2=" + core_.lstrip("^X").rstrip("$X").split(";")[0]))
    if pid == "C09" and no_index_possible(cfg.adapters) and rng.random() < 0.5:
        # "no index is involved" also when indexing is allowed but no index can be built (at most one anchored 5' and one
        # anchored 3' adapter): run those without --no-index, the adapter order given must still decide ties
        cfg.index = True
    if pid == "C16" and cfg.adapters:
        cfg.revcomp = True
        if rng.random() < 0.4:
            cfg.error_rate = rng.choice([0.5, 0.7])
            cfg.overlap = rng.choice([3, 5])
    if pid == "C10" and rng.random() < 0.3:
        # renaming comes last; only placeholders that do not depend on earlier stages can be composed from isolated runs
        cfg.rename = rng.choice(["{id}_x {comment}", "{header} extra", "{id}", "{id} {comment} tail"])
        cfg.prefix = cfg.suffix = ""
    if pid == "C11":
        if rng.random() < 0.35 and not cfg.fasta:
            cfg.max_ee = rng.choice([0.0, 0.5, 1.0, 2.5])
        if rng.random() < 0.3 and not cfg.fasta:
            cfg.max_aer = rng.choice([0.01, 0.05, 0.2])   # 0 is refused (0 < rate < 1 is demanded)
        if rng.random() < 0.2:
            cfg.max_n = rng.choice([0.0, 0.1, 0.25, 0.5])
        if cfg.adapters and not cfg.revcomp and rng.random() < 0.12:
            # filters see the fully modified read -- its header included: --rename can remove, keep or add the CASAVA field
            cfg.casava = True
            cfg.rename = rng.choice(["{id}", "{id} 1:Y:0:AC", "{id} {comment}", "{id} 2:N:0:AC", "{id} x {comment}"])
            cfg.prefix = cfg.suffix = ""
    return cfg


def documented_required(flag, spec):
    """which parts of a linked adapter must be found (guide, 'Linked adapters'): with -a the anchored parts, with -g both;
    ;required / ;optional on a part override that.  spec = [name=]PART1...PART2"""
    body = spec.split("=", 1)[1] if "=" in spec.split(";")[0].split("...")[0] else spec
    p1, p2 = body.split("...", 1)
    def part(p, anchored):
        fields = p.split(";")
        req = True if flag == "-g" else anchored
        for f in fields[1:]:
            if f.strip() == "required":
                req = True
            elif f.strip() == "optional":
                req = False
        return req
    # (a part that forbids internal matches -- leading / trailing X -- is restricted to its end of the read like an anchored one
    # and counts as anchored here, the reading the C18 oracle takes as well)
    return part(p1, p1.startswith(("^", "X", "x"))), part(p2, p2.split(";")[0].endswith(("$", "X", "x")))


def oracle_c09_linked_required(ent):
    import cutadapt.adapters as A

    for (flag, spec), obj in zip(ent["cfg"].adapters, ent["objs"]):
        if "..." in spec and isinstance(obj, A.LinkedAdapter):
            want = documented_required(flag, spec)
            got = (bool(obj.front_required), bool(obj.back_required))
            if want != got:
                return "linked adapter %s %r: required parts are %r, the documented rule gives %r" % (flag, spec, got, want)
    return None


no_index_possible = S.no_index_possible


def tie_case(rng):
    """adapters of equal length and different kinds (at most one anchored 5' and one anchored 3'), in random order, and reads
    that contain an exact copy of each where its kind can match: equal scores, equal error counts -- the adapter given first
    must win, with and without --no-index (no index can be built for these sets)"""
    L = rng.choice([5, 6, 8, 10])
    kinds = ["prefix", "suffix"] + rng.sample(["back", "front", "anywhere"], rng.choice([0, 1, 2]))
    if rng.random() < 0.2:
        kinds.remove(rng.choice(["prefix", "suffix"]))
    rng.shuffle(kinds)
    seqs = {}
    while len(seqs) < len(kinds):
        x = U.rand_seq(rng, L, "ACGT")
        if x not in seqs.values():
            seqs[kinds[len(seqs)]] = x
    ads = []
    for i, k in enumerate(kinds):
        q = seqs[k]
        flag, spec = {"prefix": ("-g", "^" + q), "suffix": ("-a", q + "$"), "back": ("-a", q), "front": ("-g", q), "anywhere": ("-b", q)}[k]
        ads.append((flag, "ad%d=%s" % (i, spec)))
    cfg = S.Cfg(adapters=tuple(ads), times=rng.choice([1, 1, 2, 3]), action=rng.choice(["trim", "trim", "mask", "lowercase", "none", "retain"]),
                error_rate=rng.choice([None, 0.0, 0.2]), overlap=rng.choice([None, 3, L]), fasta=rng.random() < 0.3,
                info_file=rng.random() < 0.5, index=rng.random() < 0.6)
    if cfg.action == "retain":
        cfg.times = 1
    reads = []
    for i in range(rng.choice([3, 5, 8])):
        inner = [seqs[k] for k in kinds if k not in ("prefix", "suffix") and rng.random() < 0.7]
        rng.shuffle(inner)
        mid = U.rand_seq(rng, rng.choice([0, 3, 7]), "ACGT").join(inner) if inner else U.rand_seq(rng, rng.choice([0, 4, 9]), "ACGT")
        head = seqs["prefix"] if "prefix" in seqs and rng.random() < 0.8 else U.rand_seq(rng, rng.choice([0, 3]), "ACGT")
        tail = seqs["suffix"] if "suffix" in seqs and rng.random() < 0.8 else U.rand_seq(rng, rng.choice([0, 3]), "ACGT")
        seq = head + U.rand_seq(rng, rng.choice([0, 2, 6]), "ACGT") + mid + U.rand_seq(rng, rng.choice([0, 2, 6]), "ACGT") + tail
        qual = None if cfg.fasta else "".join(chr(33 + rng.randint(2, 40)) for _ in seq)
        reads.append(("r%d" % i, seq, qual))
    return cfg, reads


def casava_nospace_case(rng):
    """read names without a space (no CASAVA field at all) that nevertheless carry ':Y:' right behind their first character:
    --discard-casava must leave them alone; other filters before and after it"""
    cfg = S.Cfg(casava=True, adapters=(("-a", "ad0=" + U.rand_seq(rng, 8, "ACGT")),), fasta=rng.random() < 0.3)
    if rng.random() < 0.6:
        cfg.min_len, cfg.too_short_output = rng.choice([5, 10]), rng.random() < 0.5
    if rng.random() < 0.5:
        cfg.untrimmed_output = True
    reads = []
    for i in range(rng.choice([3, 6])):
        seq = U.rand_seq(rng, rng.choice([4, 12, 30]), "ACGT") + (cfg.adapters[0][1][4:] if rng.random() < 0.5 else "")
        name = rng.choice(["r:Y:%dx", "r:Y:%dx", "r%d 1:Y:0:ACGT", "r%d", "X:Y:%d:A"]) % i
        reads.append((name, seq, None if cfg.fasta else "".join(chr(33 + rng.randint(2, 40)) for _ in seq)))
    return cfg, reads


def indexed_info_case(rng):
    """several anchored adapters of one kind, run WITH the adapter index, and an info file: reads carry inexact copies (substitution,
    insertion, deletion) of one of the adapters, so the row must name the stretch that aligns to the whole adapter with the reported
    number of errors"""
    five = rng.random() < 0.5
    k = rng.choice([2, 3, 4])
    lens = [rng.choice([8, 10, 12])] * k if rng.random() < 0.5 else [rng.choice([7, 8, 9, 10, 11, 12]) for _ in range(k)]
    seqs = []
    while len(seqs) < k:
        x = U.rand_seq(rng, lens[len(seqs)], "ACGT")
        if all(x[:6] != y[:6] and x[-6:] != y[-6:] for y in seqs):
            seqs.append(x)
    ads = tuple((("-g", "ad%d=^%s" % (i, q)) if five else ("-a", "ad%d=%s$" % (i, q))) for i, q in enumerate(seqs))
    cfg = S.Cfg(adapters=ads, error_rate=rng.choice([0.1, 0.15, 0.2, 0.25]), no_indels=rng.random() < 0.25, info_file=True, index=True,
                action=rng.choice(["trim", "trim", "mask", "none", "lowercase"]), fasta=rng.random() < 0.3)
    reads = []
    for i in range(rng.choice([4, 8, 12])):
        q = rng.choice(seqs)
        occ = U.mutate(rng, q, rng.choice([0, 1, 1, 1, 2]), "ACGT") if rng.random() < 0.9 else U.rand_seq(rng, len(q), "ACGT")
        rest = U.rand_seq(rng, rng.choice([0, 3, 9, 15]), "ACGT")
        if rng.random() < 0.25:
            rest = ("N" + rest) if five else (rest + "N")   # an N right next to the copy: it is no part of the occurrence
        seq = occ + rest if five else rest + occ
        reads.append(("r%d" % i, seq, None if cfg.fasta else "".join(chr(33 + rng.randint(2, 40)) for _ in seq)))
    return cfg, reads


def maxn_boundary_case(rng):
    """--max-n with a fraction: reads whose share of N is exactly the threshold (kept), one N more (discarded), one N fewer (kept),
    for read lengths and thresholds whose product is not exact in binary floating point"""
    from decimal import Decimal

    L = rng.choice([10, 20, 25, 40, 50, 100, 100, 125, 200, 250])
    k = rng.randrange(1, L)
    cfg = S.Cfg(max_n=float(str(Decimal(k) / Decimal(L))), fasta=rng.random() < 0.5)
    reads = []
    for i, kk in enumerate([k, k + 1, k - 1, k, rng.randrange(0, L + 1)]):
        kk = min(kk, L)
        pos = set(rng.sample(range(L), kk))
        seq = "".join(("N" if rng.random() < 0.8 else "n") if j in pos else rng.choice("ACGT") for j in range(L))
        reads.append(("r%d" % i, seq, None if cfg.fasta else "I" * L))
    return cfg, reads


def maxee_boundary_case(rng):
    """--max-ee at a whole number n: n bases of quality 0 (one expected error each) with a few bases of quality 93 added give
    n + k * 5e-10 -- above the threshold, however little (consumed); one base of quality 0 fewer is below (kept)"""
    n = rng.choice([1, 1, 2, 3])
    cfg = S.Cfg(max_ee=float(n))
    reads = []
    for i, (zeros, tiny) in enumerate([(n, rng.choice([1, 3])), (n - 1, 2), (n, 1), (n + 1, 0), (n - 1, 0)]):
        q = list("!" * zeros + "~" * tiny)
        rng.shuffle(q)
        reads.append(("r%d" % i, U.rand_seq(rng, len(q), "ACGT"), "".join(q)))
    reads = [r for r in reads if r[1]]
    return cfg, reads


def maxaer_equal_case(rng):
    """--max-aer exactly met: 1, 2, 4 or 8 bases of quality 10 / 20 / 30 against a threshold of 0.1 / 0.01 / 0.001 -- not above, so
    kept; the next worse quality is above (consumed), the next better one below (kept)"""
    q = rng.choice([10, 20, 30])
    cfg = S.Cfg()
    cfg.max_aer = float("0." + "0" * (q // 10 - 1) + "1")
    reads = []
    for i, (n, dq) in enumerate([(1, 0), (2, 0), (4, 0), (8, 0), (4, -1), (4, 1), (rng.choice([3, 5, 6, 7]), -2)]):
        reads.append(("r%d" % i, U.rand_seq(rng, n, "ACGT"), chr(33 + q + dq) * n))
    return cfg, reads


def linked_dimer_case(rng):
    """linked adapters on adapter dimers: nothing (or next to nothing) between the two parts, and a base deleted from the 3' part, so
    that what is left after the 5' part is shorter than the 3' adapter (anchored, or with a minimum overlap of its full length)"""
    fr = U.rand_seq(rng, rng.choice([6, 8]), "ACGT")
    bk = U.rand_seq(rng, rng.choice([10, 12]), "ACGT")
    flag = rng.choice(["-a", "-g"])
    form = rng.choice(["%s...%s$", "^%s...%s$", "^%s...%s;min_overlap=%d" % ("%s", "%s", len(bk)), "%s;required...%s$"])
    spec = "lk=" + form % (fr, bk)
    cfg = S.Cfg(adapters=((flag, spec),), error_rate=rng.choice([0.1, 0.2]), action=rng.choice(["trim", "trim", "mask", "none", "lowercase"]),
                fasta=rng.random() < 0.3, discard_untrimmed=rng.random() < 0.3, info_file=rng.random() < 0.4)
    reads = []
    for i in range(rng.choice([4, 8])):
        b2 = bk
        if rng.random() < 0.7:
            p_ = rng.randrange(1, len(bk) - 1)
            b2 = bk[:p_] + bk[p_ + 1:]          # one base deleted
        ins = U.rand_seq(rng, rng.choice([0, 0, 0, 1, 2, 9]), "ACGT")
        lead = "" if "^" in spec or rng.random() < 0.6 else U.rand_seq(rng, 2, "ACGT")
        seq = lead + fr + ins + b2
        reads.append(("r%d" % i, seq, None if cfg.fasta else "".join(chr(33 + rng.randint(2, 40)) for _ in seq)))
    return cfg, reads


def linked_rounds_case(rng):
    """a linked adapter whose two parts are both found in one round, followed by a further match of another adapter
    in a later round of the same read (--times >= 2): rows of later rounds must refer to what the earlier round left"""
    fr, bk, other = (U.rand_seq(rng, rng.choice([5, 6, 8]), "ACGT") for _ in range(3))
    anchored = rng.random() < 0.5
    cfg = S.Cfg(adapters=(("-g", "lk=%s%s...%s" % ("^" if anchored else "", fr, bk)), (rng.choice(["-a", "-b", "-g"]), "ad1=" + other)),
                times=rng.choice([2, 3]), info_file=True, action=rng.choice(["trim", "trim", "mask", "lowercase", "none"]),
                error_rate=rng.choice([None, 0.0, 0.2]), overlap=rng.choice([None, 3, 4]), fasta=rng.random() < 0.3)
    reads = []
    for i in range(rng.choice([3, 5])):
        ins1, ins2, tail = (U.rand_seq(rng, rng.choice([0, 3, 7, 12]), "ACGT") for _ in range(3))
        lead = "" if anchored or rng.random() < 0.5 else U.rand_seq(rng, 3, "ACGT")
        shape = rng.random()
        if shape < 0.5:
            seq = lead + fr + ins1 + other + ins2 + bk + tail
        elif shape < 0.75:
            seq = lead + fr + other + ins1 + bk + tail
        else:
            seq = lead + fr + ins1 + bk + tail
        if rng.random() < 0.3 and len(seq) > 4:
            seq = U.mutate(rng, seq, 1, "ACGT")
        qual = None if cfg.fasta else "".join(chr(33 + rng.randint(2, 40)) for _ in seq)
        reads.append(("r%d" % i, seq, qual))
    return cfg, reads


def run(ctx, pid):
    ctx.coq()
    ctx.model()
    buildimpl.activate()
    rng = ctx.rng
    n = ctx.size(*SIZES[pid])
    cases = []
    corpus = os.path.join(core.VERIF, "corpus", pid + ".json")
    if os.path.exists(corpus):
        for e in json.load(open(corpus)):
            cases.append((S.Cfg.from_json(e["cfg"]), [tuple(r) for r in e["reads"]]))
    ctx.notes["corpus_cases"] = len(cases)
    for _ in range(n):
        if pid in ("C17", "C20", "C03", "C09") and rng.random() < 0.08:
            cases.append(linked_rounds_case(rng))
            continue
        if pid == "C09" and rng.random() < 0.1:
            cases.append(tie_case(rng))
            continue
        if pid in ("C09", "C03") and rng.random() < 0.05:
            cases.append(linked_dimer_case(rng))
            continue
        if pid in ("C09", "C03") and rng.random() < 0.05:
            cases.append(linked_retain_case(rng))
            continue
        if pid == "C11" and rng.random() < 0.08:
            cases.append(maxn_boundary_case(rng))
            continue
        if pid == "C11" and rng.random() < 0.04:
            cases.append(maxee_boundary_case(rng))
            continue
        if pid == "C11" and rng.random() < 0.04:
            cases.append(maxaer_equal_case(rng))
            continue
        if (pid == "C17" and rng.random() < 0.1) or (pid == "C03" and rng.random() < 0.06):
            # (C03: with the index in use the written read is still a slice / an equally long masked copy, also when the read is
            # nothing but a damaged adapter and shorter than the longest indexed string)
            cases.append(indexed_info_case(rng))
            continue
        if pid == "C11" and rng.random() < 0.04:
            cases.append(casava_nospace_case(rng))
            continue
        cfg, reads = S.rand_case(rng, FOCUS[pid])
        if pid in ("C03", "C16") and cfg.revcomp and rng.random() < 0.3:
            # ambiguity codes in the reads: the reverse complement maps every IUPAC letter (B<->V, D<->H, R<->Y, K<->M; S, W, N fixed)
            reads = [(nm, "".join((rng.choice("BDHVRYKMSWbdhv") if rng.random() < 0.15 else c) for c in sq), ql) for nm, sq, ql in reads]
        cases.append((adjust(pid, rng, cfg), reads))
    results = S.correspond(ctx, cases, "pipeline(model) vs cutadapt.cli.main", rng_argv=(rng if pid == "C10" else None))
    dist = {}
    shown = 0
    with S.Scratch() as d:
        for ent in results:
            if ent.get("skip"):
                dist["skipped(invalid spec)"] = dist.get("skipped(invalid spec)", 0) + 1
                continue
            cfg = ent["cfg"]
            raw = ent["impl"]
            nontrivial = raw["exit"] == 0 and nontrivial_for(pid, ent)
            ctx.count((json.dumps(cfg.to_json(), sort_keys=True), tuple(ent["reads"])), nontrivial)
            for k in FOCUS[pid]:
                if case_has(cfg, k):
                    dist[k] = dist.get(k, 0) + 1
            if raw["exit"] != 0:
                sig = "implementation fails: exit %s %s" % (raw["exit"], (raw["error"] or "").split(":")[0])
                ctx.violation(sig, replay_doc(ent, sig))
                continue
            why = None
            try:
                if any(read_index(r[0]) is None for r in ent["reads"]):
                    pass   # names outside the generator's r<idx> scheme: compared with the model only
                elif pid == "C03":
                    why = oracle_c03(ent) or oracle_c03_actions(ent, d) or oracle_c03_retain(ent)
                elif pid == "C04":
                    why = oracle_c04(ent, d)
                elif pid == "C09":
                    why = oracle_c09_linked_required(ent) or oracle_c09(ent) or oracle_c09_reaching(ent, d) or oracle_c03_retain(ent)
                elif pid == "C10":
                    why = oracle_c10(ent, d) if rng.random() < (0.85 if ctx.quick else 0.9) else None
                elif pid == "C11":
                    why = oracle_c11(ent, d)
                elif pid == "C15":
                    why = oracle_c15(ent, d)
                elif pid == "C16":
                    why = oracle_c16(ent) or oracle_c16_after_pre(ent, d)
                elif pid == "C17":
                    why = oracle_c17(ent)
                elif pid == "C20":
                    why = oracle_c20(ent)
            except Exception as e:  # an oracle that cannot digest the output is itself a finding
                why = "oracle could not interpret the output: %s: %s" % (type(e).__name__, e)
            if why:
                ctx.violation(signature(pid, why), replay_doc(ent, why))
            if ent.get("diffs"):
                if shown < 10:
                    shown += 1
                    ctx.violation("correspondence:pipeline " + ent["diffs"][0].split(":")[0], dict(replay_doc(ent, "model and implementation differ"), diffs=ent["diffs"][:4]),
                                  found_input=False)
    if pid in ("C16", "C20"):
        multicore_part(ctx, pid, results, dist)
    if pid == "C10":
        cut_order_part(ctx, dist)
    if pid == "C15":
        relative_demux_part(ctx, dist)
        dup_name_demux_part(ctx, dist)
    if pid == "C20":
        indexed_stats_part(ctx, dist)
    if pid in ("C03", "C04", "C09", "C10", "C11", "C15", "C16", "C20"):
        from . import pairprops

        pres = pairprops.paired_part(ctx, pid, max(60, n // 3), dist)
        results_paired = len(pres)
        if pid == "C04":
            minimal_report_part(ctx, results, pres, dist)
            multicore_counts_part(ctx, pres, dist)
    ctx.coverage["rule"] = (
        "random valid single-end option sets inside the modelled fragment (focus: %s), 1-12 reads each with planted/edited/partial adapter copies, "
        "quality tails, N ends, poly-A tails, CASAVA and length= headers; implementation = cutadapt.cli.main in-process on the rebuilt working tree, "
        "model = extracted Gallina pipeline; every case also goes through oracle_%s on the implementation's own outputs; "
        "non-trivial = the run exercises the property (see nontrivial_for)" % (", ".join(FOCUS[pid]), pid)
    )
    ctx.coverage["input_distribution"] = dist
    k = 0
    for ent in results:
        if not ent.get("skip") and k < 4:
            k += 1
            ctx.sample({"argv": ent["impl"]["argv"][5:-1], "reads": ent["reads"][:2]})
    ctx.coverage["search_note"] = "oracle_%s was run on the implementation's outputs for all %d cases of this run" % (pid, len(results))


def multicore_part(ctx, pid, results, dist):
    """the figures this property is about are summed over worker processes when several cores are used: re-run some of the
    cases on which the property is exercised with 2-3 cores and small chunks, and compare those figures with the one-core run
    (which the correspondence above has compared with the model)"""
    from . import runnerutil as R

    picked = [e for e in results if not e.get("skip") and e["impl"]["exit"] == 0 and nontrivial_for(pid, e) and len(e["reads"]) >= 3]
    if pid == "C20":
        picked.sort(key=lambda e: -sum(1 for f, _ in e["cfg"].adapters if f == "-b"))
    picked = picked[: (6 if ctx.quick else 40)]
    if pid == "C20":
        # linked adapters with --revcomp: the per-adapter count of matches on the reverse complement is summed over the workers as well
        rng = ctx.rng
        for _ in range(1 if ctx.quick else 4):
            fr, bk = U.rand_seq(rng, 8, "ACGT"), U.rand_seq(rng, 8, "ACGT")
            cfg_l = S.Cfg(adapters=((rng.choice(["-a", "-g"]), "lk=%s...%s" % (fr, bk)),), revcomp=True, fasta=rng.random() < 0.4, info_file=False)
            rl = []
            for i in range(rng.randint(24, 40)):
                sq = fr + U.rand_seq(rng, rng.choice([8, 14, 20]), "ACGT") + bk + U.rand_seq(rng, rng.choice([0, 5]), "ACGT")
                if rng.random() < 0.5:
                    sq = revcomp(sq)
                rl.append(("r%d" % i, sq, None if cfg_l.fasta else "".join(chr(33 + rng.randint(15, 40)) for _ in sq)))
            picked.insert(0, {"cfg": cfg_l, "reads": rl})
    d = os.path.join(buildimpl.scratch_root(), "mc-" + pid)
    os.makedirs(d, exist_ok=True)
    try:
        for ent in picked:
            cfg = ent["cfg"]
            for f in os.listdir(d):
                if os.path.isfile(os.path.join(d, f)):
                    os.remove(os.path.join(d, f))
            reads = ent["reads"] * (1 if len(ent["reads"]) >= 8 else 3)
            reads = [("%s_%d%s" % (n.split(" ", 1)[0], i, (" " + n.split(" ", 1)[1]) if " " in n else ""), s_, q) for i, (n, s_, q) in enumerate(reads)]
            S.write_input(d, reads, cfg.fasta)
            argv = cfg.argv(d)
            one = R.run_cli(argv, d, 1, trace=False)
            rep1 = R.report_without_volatile(d)
            multi = R.run_cli(argv, d, ctx.rng.choice([2, 3]), buffer_size=ctx.rng.choice([300, 600]), trace=False)
            repn = R.report_without_volatile(d)
            dist["multi-core re-runs"] = dist.get("multi-core re-runs", 0) + 1
            if one["exit"] != 0 or multi["exit"] != 0 or rep1 is None or repn is None:
                if "does not fit into buffer" in (multi.get("stderr") or ""):
                    continue
                if (one["exit"] == 0) != (multi["exit"] == 0):
                    ctx.violation("multi-core run fails where the one-core run succeeds", {"cfg": cfg.to_json(), "reads": [list(r) for r in reads], "stderr": multi["stderr"][-300:]})
                continue
            if pid == "C16":
                a, b = rep1["read_counts"].get("reverse_complemented"), repn["read_counts"].get("reverse_complemented")
                what = "reads reported as reverse-complemented"
            else:
                a, b = rep1.get("adapters_read1"), repn.get("adapters_read1")
                what = "per-adapter statistics"
            ctx.count(("multicore", json.dumps(cfg.to_json(), sort_keys=True), len(reads)), True)
            if a != b:
                ctx.violation("several cores: %s differ from the one-core run" % what,
                              {"cfg": cfg.to_json(), "reads": [list(r) for r in reads], "argv": argv[5:-1], "one_core": a, "several_cores": b,
                               "why": "%s: one core %r, several cores %r" % (what, a, b)})
    finally:
        import shutil
        shutil.rmtree(d, ignore_errors=True)


def multicore_counts_part(ctx, presults, dist):
    """C04: the reported totals are sums over the worker processes when several cores are used: paired cases re-run with 2-3
    cores and small chunks; read counts, base-pair counts and filter categories must be those of the one-core run"""
    from . import runnerutil as R
    from . import pairutil as P

    picked = [e for e in presults if not e.get("skip") and e["impl"]["exit"] == 0 and len(e["pairs"]) >= 3][: (6 if ctx.quick else 40)]
    d = os.path.join(buildimpl.scratch_root(), "mc-C04")
    os.makedirs(d, exist_ok=True)
    try:
        for ent in picked:
            pcfg = ent["cfg"]
            b, ext = pcfg.base, pcfg.base.ext()
            for f in os.listdir(d):
                if os.path.isfile(os.path.join(d, f)):
                    os.remove(os.path.join(d, f))
            pairs = []
            for rep_ in range(1 if len(ent["pairs"]) >= 10 else 4):
                for i, (m1, m2) in enumerate(ent["pairs"]):
                    tag = lambda n: "%s_%d_%d%s" % (n.split(" ", 1)[0], rep_, i, (" " + n.split(" ", 1)[1]) if " " in n else "")
                    pairs.append(((tag(m1[0]), m1[1], m1[2]), (tag(m2[0]), m2[1], m2[2])))
            if pcfg.interleaved_in:
                P.write_records(os.path.join(d, "in.inter." + ext), [r for pr in pairs for r in pr], b.fasta)
            else:
                P.write_records(os.path.join(d, "in.1." + ext), [pr[0] for pr in pairs], b.fasta)
                P.write_records(os.path.join(d, "in.2." + ext), [pr[1] for pr in pairs], b.fasta)
            argv = pcfg.argv(d)
            one = R.run_cli(argv, d, 1, trace=False)
            rep1 = R.report_without_volatile(d)
            multi = R.run_cli(argv, d, ctx.rng.choice([2, 3]), buffer_size=ctx.rng.choice([600, 1000]), trace=False)
            repn = R.report_without_volatile(d)
            dist["multi-core re-runs (paired)"] = dist.get("multi-core re-runs (paired)", 0) + 1
            if one["exit"] != 0 or multi["exit"] != 0 or rep1 is None or repn is None:
                continue
            ctx.count(("multicore-paired", json.dumps(pcfg.to_json(), sort_keys=True), len(pairs)), True)
            for key in ("read_counts", "basepair_counts"):
                if rep1.get(key) != repn.get(key):
                    ctx.violation("several cores: reported %s differ from the one-core run" % key,
                                  {"paired": True, "cfg": pcfg.to_json(), "pairs": [[list(m) for m in pr] for pr in pairs], "one_core": rep1.get(key), "several_cores": repn.get(key),
                                   "why": "%s: one core %r, several cores %r" % (key, rep1.get(key), repn.get(key))})
                    break
    finally:
        import shutil
        shutil.rmtree(d, ignore_errors=True)


def minimal_report_rerun(kind, cfg, records, d):
    """run one case as a subprocess with --report=minimal (and --json) in the empty directory d; returns (why, argv)"""
    from . import runnerutil as R
    from . import pairutil as P

    for f in os.listdir(d):
        if os.path.isfile(os.path.join(d, f)):
            os.remove(os.path.join(d, f))
    if kind == "single":
        S.write_input(d, records, cfg.fasta)
    else:
        b, ext = cfg.base, cfg.base.ext()
        if cfg.interleaved_in:
            P.write_records(os.path.join(d, "in.inter." + ext), [r for pr in records for r in pr], b.fasta)
        else:
            P.write_records(os.path.join(d, "in.1." + ext), [pr[0] for pr in records], b.fasta)
            P.write_records(os.path.join(d, "in.2." + ext), [pr[1] for pr in records], b.fasta)
    argv = [a for a in cfg.argv(d) if a != "--report=minimal"]
    res = R.run_cli(["--report=minimal"] + argv, d, 1, trace=False)
    if res["exit"] != 0:
        return None, argv
    rp = os.path.join(d, "report.json")
    return S.oracle_minimal_report({"stdout": res["stdout"], "report": json.load(open(rp)) if os.path.exists(rp) else None}, paired=(kind == "paired")), argv


def minimal_report_part(ctx, results, presults, dist):
    """C04 names the minimal report: re-run some single-end and paired cases as a subprocess with --report=minimal (and --json)
    and compare every figure of the one-line report with the JSON report of the same run"""
    from . import runnerutil as R
    from . import pairutil as P

    k = 8 if ctx.quick else 60
    jobs = [("single", e) for e in results if not e.get("skip") and e["impl"]["exit"] == 0][:k] + \
           [("paired", e) for e in presults if not e.get("skip") and e["impl"]["exit"] == 0][:k]
    d = os.path.join(buildimpl.scratch_root(), "minrep")
    os.makedirs(d, exist_ok=True)
    try:
        for kind, ent in jobs:
            for f in os.listdir(d):
                if os.path.isfile(os.path.join(d, f)):
                    os.remove(os.path.join(d, f))
            cfg = ent["cfg"]
            if kind == "single":
                S.write_input(d, ent["reads"], cfg.fasta)
                argv = cfg.argv(d)
            else:
                b, ext = cfg.base, cfg.base.ext()
                if cfg.interleaved_in:
                    P.write_records(os.path.join(d, "in.inter." + ext), [r for pr in ent["pairs"] for r in pr], b.fasta)
                else:
                    P.write_records(os.path.join(d, "in.1." + ext), [pr[0] for pr in ent["pairs"]], b.fasta)
                    P.write_records(os.path.join(d, "in.2." + ext), [pr[1] for pr in ent["pairs"]], b.fasta)
                argv = cfg.argv(d)
            res = R.run_cli(["--report=minimal"] + argv, d, 1, trace=False)
            dist["minimal report re-runs"] = dist.get("minimal report re-runs", 0) + 1
            if res["exit"] != 0:
                continue
            rp = os.path.join(d, "report.json")
            why = S.oracle_minimal_report({"stdout": res["stdout"], "report": json.load(open(rp)) if os.path.exists(rp) else None}, paired=(kind == "paired"))
            ctx.count(("minrep", kind, json.dumps(cfg.to_json(), sort_keys=True)), True)
            if why:
                ctx.violation("minimal report: " + why.split(":")[1].split("=")[0].strip()[:40],
                              {"kind": kind, "cfg": cfg.to_json(), "argv": [a for a in argv if not a.startswith("/var")], "why": why,
                               "records": [list(r) for r in ent["reads"]] if kind == "single" else [[list(m) for m in pr] for pr in ent["pairs"]]})
    finally:
        import shutil
        shutil.rmtree(d, ignore_errors=True)


def dup_name_demux_part(ctx, dist):
    """C15 with adapters that share a name (records of a barcode FASTA with a repeated name, -g x=... -g x=...): {name} stands for the
    adapter's name, so the reads of both adapters go to the one file of that name and the adapters named differently keep their own"""
    import random

    rng = random.Random(ctx.seed * 7919 + 15)   # own stream: the parts that follow keep theirs
    with S.Scratch() as d:
        for it in range(ctx.size(4, 30)):
            order = rng.choice([["alpha", "alpha", "beta", "gamma"], ["alpha", "beta", "alpha", "gamma"], ["beta", "alpha", "alpha"], ["alpha", "beta", "beta", "gamma"]])
            seqs = []
            while len(seqs) < len(order):
                x = U.rand_seq(rng, 8, "ACGT")
                if all(sum(a != b for a, b in zip(x, y)) >= 4 for y in seqs):
                    seqs.append(x)
            cfg = S.Cfg(adapters=tuple(("-g", "%s=^%s" % (n, q)) for n, q in zip(order, seqs)), error_rate=0.0, demux=True, fasta=rng.random() < 0.3)
            reads, want = [], {}
            for i in range(rng.choice([6, 12])):
                k = rng.randrange(len(order) + 1)
                body = U.rand_seq(rng, rng.randint(10, 25), "ACGT")
                if k < len(order):
                    seq, key = seqs[k] + body, "name:" + order[k]
                else:
                    seq, key = body, "name:unknown"
                    if any(seq.startswith(q) for q in seqs):
                        continue
                reads.append(("r%d" % i, seq, None if cfg.fasta else "I" * len(seq)))
                want.setdefault(key, []).append("r%d" % i)
            res = S.run_impl(cfg, reads, d)
            dist["demultiplexing with shared adapter names"] = dist.get("demultiplexing with shared adapter names", 0) + 1
            ctx.count(("dupnames", tuple(order), tuple(seqs), len(reads), it), res["exit"] == 0)
            got = {k: [n.split()[0] for n, _, _ in v] for k, v in res["files"].items() if str(k).startswith("name:") and v} if res["exit"] == 0 else None
            if got != {k: v for k, v in want.items() if v}:
                ctx.violation("demultiplexing with shared adapter names: reads are not in the file of their adapter's name",
                              {"kind": "dupnames", "cfg": cfg.to_json(), "reads": [list(r) for r in reads], "expected": want, "observed": got if got is not None else "exit %r %s" % (res["exit"], res.get("error")),
                               "why": "adapters %r: expected %r, files hold %r" % (list(zip(order, seqs)), want, got)})
                return


def indexed_stats_part(ctx, dist):
    """C20 with the adapter index in use (several anchored adapters of one kind, the default at the command line): the per-adapter
    statistics -- matches, removed lengths by error count, bases in front of 3' matches -- are those of the same run with --no-index;
    reads carry soft-masked (lower-case) bases, which the tally of adjacent bases files under 'none/other'"""
    import random

    rng = random.Random(ctx.seed * 15485863 + 20)   # own stream
    with S.Scratch() as d:
        for it in range(ctx.size(6, 60)):
            for _try in range(40):
                cfg, reads = indexed_info_case(rng)
                three = all(sp.split("=", 1)[1].endswith("$") for _, sp in cfg.adapters)
                if it % 3 == 2 or (three and len({len(sp.split("=", 1)[1]) for _, sp in cfg.adapters}) == 1):
                    break
            cfg.info_file = False
            cfg.action = "trim"
            if it % 3 != 2:
                cfg.no_indels = True   # anchored 3' adapters of one length without indels: index strings of a single length
            reads = [(nm, "".join((c.lower() if rng.random() < 0.5 else c) for c in sq), ql) for nm, sq, ql in reads]
            c2 = S.Cfg.from_json(cfg.to_json())
            c2.index = False
            a, b = S.run_impl(cfg, reads, d), S.run_impl(c2, reads, d)
            dist["statistics with the index in use"] = dist.get("statistics with the index in use", 0) + 1
            ok = a["exit"] == 0 and b["exit"] == 0 and a.get("report") and b.get("report")
            ctx.count(("indexed-stats", json.dumps(cfg.to_json(), sort_keys=True), tuple(reads)), bool(ok))
            if not ok:
                continue

            def strip(ads):
                out = json.loads(json.dumps(ads or []))
                for x in out:
                    for end in ("five_prime_end", "three_prime_end"):
                        if x.get(end):
                            x[end]["trimmed_lengths"] = [{k: v for k, v in row.items() if k != "expect"} for row in x[end]["trimmed_lengths"]]
                return out

            sa, sb = strip(a["report"].get("adapters_read1")), strip(b["report"].get("adapters_read1"))
            same_reads = a["files"].get(0) == b["files"].get(0)
            if same_reads and sa != sb:
                diff = next(((x, y) for x, y in zip(sa, sb) if x != y), (sa, sb))
                ctx.violation("adapter statistics differ between the indexed and the one-by-one search although the same matches were applied",
                              {"kind": "indexed-stats", "cfg": cfg.to_json(), "reads": [list(r) for r in reads],
                               "why": "with the index: %r; with --no-index: %r" % diff})
                return


def relative_demux_part(ctx, dist):
    """C15 with output templates given relative to the working directory, i.e. with the placeholder at the very beginning of the
    path ({name}.fastq; {name}.1.fastq/{name}.2.fastq; {name1}-{name2}.1.fastq): every read must be in the file named after the
    adapter of its last match (unknown if none), and no file may keep the placeholder in its name"""
    from . import runnerutil as R

    rng = ctx.rng
    d = os.path.join(buildimpl.scratch_root(), "reldemux")
    os.makedirs(d, exist_ok=True)
    try:
        for _ in range(ctx.size(6, 60)):
            for f in os.listdir(d):
                if os.path.isfile(os.path.join(d, f)):
                    os.remove(os.path.join(d, f))
            names = ["first", "second", "third"][: rng.choice([2, 3])]
            seqs = []
            while len(seqs) < len(names):
                x = U.rand_seq(rng, 8, "ACGT")
                if all(sum(a != b for a, b in zip(x, y)) >= 4 for y in seqs):
                    seqs.append(x)
            mode = rng.choice(["single", "paired", "combinatorial", "r2only", "inter1"])
            nofile = None
            if _ == 0 or rng.random() < 0.1:
                # more output files than the soft limit on open files allows: the files are still all created and filled
                # (the limit is raised as far as the hard limit permits)
                nofile = 64
                mode = rng.choice(["single", "single", "paired"])
                names = ["bc%03d" % i for i in range(rng.choice([70, 100, 150]))]
                seqs = []
                seen = set()
                while len(seqs) < len(names):
                    x = U.rand_seq(rng, 10, "ACGT")
                    if x not in seen:
                        seen.add(x)
                        seqs.append(x)
            recs, want = [], {}
            for i in range(rng.choice([6, 12])):
                k = rng.choice([None] + list(range(len(names))))
                k2 = rng.choice([None] + list(range(len(names))))
                r1 = ("" if k is None else seqs[k]) + U.rand_seq(rng, 14, "ACGT")
                r2 = ("" if k2 is None else seqs[k2]) + U.rand_seq(rng, 14, "ACGT")
                recs.append(("r%d" % i, r1, r2))
                n1 = "unknown" if k is None else names[k]
                n2 = "unknown" if k2 is None else names[k2]
                if mode == "combinatorial":
                    key = "%s-%s" % (n1, n2)
                elif mode == "r2only":
                    key = "unknown-%s" % n2        # adapters on R2 only: the first name of every pair is 'unknown'
                elif mode == "inter1" and k is None:
                    key = "untr"                   # the --untrimmed-output file takes the first reads of pairs without a match
                else:
                    key = n1
                want.setdefault(key, []).append("r%d" % i)
            with open(os.path.join(d, "in.1.fastq"), "w") as f:
                for n, a, b in recs:
                    f.write("@%s\n%s\n+\n%s\n" % (n, a, "I" * len(a)))
            with open(os.path.join(d, "in.2.fastq"), "w") as f:
                for n, a, b in recs:
                    f.write("@%s\n%s\n+\n%s\n" % (n, b, "I" * len(b)))
            argv = ["-e", "0"]
            if mode != "r2only":
                for nm, sq in zip(names, seqs):
                    argv += ["-g", "%s=^%s" % (nm, sq)]
            if mode == "r2only":
                for nm, sq in zip(names, seqs):
                    argv += ["-G", "%s=^%s" % (nm, sq)]
                argv += ["-o", "{name1}-{name2}.1.fastq", "-p", "{name1}-{name2}.2.fastq", "in.1.fastq", "in.2.fastq"]
            elif mode == "inter1":
                # interleaved input, {name} templates for both mates and only ONE of the two untrimmed options
                with open(os.path.join(d, "in.inter.fastq"), "w") as f:
                    for n, a, b in recs:
                        f.write("@%s\n%s\n+\n%s\n@%s\n%s\n+\n%s\n" % (n, a, "I" * len(a), n, b, "I" * len(b)))
                argv += ["--interleaved", "-o", "{name}.1.fastq", "-p", "{name}.2.fastq", "--untrimmed-output", "untr.1.fastq", "in.inter.fastq"]
            elif mode == "single":
                argv += ["-o", "{name}.fastq", "in.1.fastq"]
            elif mode == "paired":
                argv += ["-o", "{name}.1.fastq", "-p", "{name}.2.fastq", "in.1.fastq", "in.2.fastq"]
            else:
                for nm, sq in zip(names, seqs):
                    argv += ["-G", "%s=^%s" % (nm, sq)]
                argv += ["-o", "{name1}-{name2}.1.fastq", "-p", "{name1}-{name2}.2.fastq", "in.1.fastq", "in.2.fastq"]
            # under the low limit one core only: with worker processes the pipes come after the output files and their EMFILE is a
            # loud failure outside this property
            res = R.run_cli(argv, d, 1 if nofile else rng.choice([1, 1, 2]), trace=False, nofile=nofile)
            dist["relative output templates"] = dist.get("relative output templates", 0) + 1
            if nofile:
                dist["more output files than the soft open-file limit"] = dist.get("more output files than the soft open-file limit", 0) + 1
            ctx.count(("reldemux", mode, tuple(recs)), True)
            why = None
            if res["exit"] != 0:
                why = "cutadapt fails: " + res["stderr"].strip()[-200:]
            else:
                files = sorted(f for f in os.listdir(d) if f.endswith(".fastq") and not f.startswith("in."))
                got = {}
                for f in files:
                    if "{" in f:
                        why = "an output file keeps the placeholder in its name: %s" % f
                        break
                    stem = f[:-6]
                    if mode != "single":
                        if not stem.endswith(".1"):
                            continue
                        stem = stem[:-2]
                    got[stem] = [l[1:].strip() for l in open(os.path.join(d, f)).read().split("\n")[0::4] if l.startswith("@")]
                if why is None and mode == "inter1":
                    un2 = os.path.join(d, "unknown.2.fastq")
                    ids2 = [l[1:].strip() for l in open(un2).read().split("\n")[0::4] if l.startswith("@")] if os.path.exists(un2) else None
                    if ids2 != want.get("untr", []):
                        why = "second reads of the pairs without a match: unknown.2.fastq holds %r, expected %r" % (ids2, want.get("untr", []))
                if why is None and nofile and mode == "single" and set(got) != set(names) | {"unknown"}:
                    why = "files for %d of the %d adapter names were created" % (len(set(got) & set(names)), len(names))
                if why is None and {k: v for k, v in got.items() if v} != want:
                    why = "reads per file %r, expected %r" % ({k: v for k, v in got.items() if v}, want)
            if why:
                ctx.violation("relative template: " + why.split(":")[0][:60], {"mode": mode, "argv": argv, "records": [list(r) for r in recs], "why": why, "relative": True, "nofile": nofile})
    finally:
        import shutil
        shutil.rmtree(d, ignore_errors=True)


def cut_order_part(ctx, dist):
    """C10, 'the -u values apply in the order given': -u twice (also -U), reads shorter than the two cuts together, and
    --rename with {cut_prefix}/{cut_suffix}, which show which bases each cut removed; expectation = the cuts applied one after
    the other in the order of the command line"""
    rng = ctx.rng
    with S.Scratch() as d:
        for _ in range(ctx.size(25, 300)):
            a = rng.choice([1, 2, 3, 5, -1, -2, -3, -5])
            b = rng.choice([1, 2, 4, 6]) * (-1 if a > 0 else 1)   # the two values must address different ends
            cfg = S.Cfg(cuts=(a, b), rename="{id} p={cut_prefix} s={cut_suffix}", fasta=rng.random() < 0.3)
            reads = []
            for i in range(rng.choice([2, 5])):
                seq = U.rand_seq(rng, rng.choice([0, 1, 2, 3, 4, 5, 7, 12]), "ACGT")
                reads.append(("r%d" % i, seq, None if cfg.fasta else "".join(chr(33 + rng.randint(2, 40)) for _ in seq)))
            res = S.run_impl(cfg, reads, d)
            dist["-u twice with {cut_prefix}/{cut_suffix}"] = dist.get("-u twice with {cut_prefix}/{cut_suffix}", 0) + 1
            ctx.count(("cutorder", a, b, tuple(reads)), True)
            if res["exit"] != 0:
                ctx.violation("cut order: implementation fails", {"argv": res["argv"][5:-1], "reads": [list(r) for r in reads], "error": res["error"]})
                continue
            got = {n.split(" ")[0]: (n, sq) for n, sq, _ in res["files"].get(0, [])}
            for name, seq, _ in reads:
                pre = suf = ""
                cur = seq
                for c in (a, b):
                    if c > 0:
                        pre, cur = cur[:c], cur[c:]
                    elif c < 0:
                        suf, cur = cur[c:], cur[:c]
                want = ("%s p=%s s=%s" % (name, pre, suf), cur)
                if got.get(name) != want:
                    ctx.violation("the -u values are not applied in the order given",
                                  {"argv": res["argv"][5:-1], "reads": [list(r) for r in reads], "observed": list(got.get(name) or ()), "expected": list(want),
                                   "why": "-u %d -u %d on %r: got %r, cuts applied in the given order give %r" % (a, b, seq, got.get(name), want)})
                    break


def signature(pid, why):
    if why.startswith("F17:"):
        return "F17 info-file coordinates after 5' removal"
    return why.split(":")[0][:70] if pid not in ("C17",) else why.split(" (")[0][:90]


def case_has(cfg, k):
    return {
        "action": cfg.action != "trim", "cut": bool(cfg.cuts), "qual": cfg.qcut is not None, "length": cfg.length is not None,
        "trimn": cfg.trim_n, "adapters": bool(cfg.adapters), "zerocap": cfg.zero_cap, "revcomp": cfg.revcomp, "polya": cfg.poly_a,
        "filters": any(getattr(cfg, x) is not None for x in ("min_len", "max_len", "max_n", "max_ee", "max_aer")) or cfg.casava
        or cfg.discard_trimmed or cfg.discard_untrimmed or cfg.untrimmed_output,
        "demux": cfg.demux, "nextseq": cfg.nextseq is not None, "names": bool(cfg.prefix or cfg.suffix or cfg.strip_suffix or cfg.length_tag),
        "info": cfg.info_file, "times": cfg.times > 1,
    }.get(k, False)


def nontrivial_for(pid, ent):
    rep = ent["impl"]["report"]
    if rep is None:
        return False
    rc = rep["read_counts"]
    if pid in ("C03", "C10"):
        return rep["basepair_counts"]["output"] != rep["basepair_counts"]["input"] or ent["cfg"].action != "trim"
    if pid in ("C04", "C11"):
        return sum(v for v in rc["filtered"].values() if v) > 0
    if pid == "C15":
        return ent["cfg"].demux and (rc["read1_with_adapter"] or 0) > 0
    if pid == "C16":
        return ent["cfg"].revcomp and (rc["read1_with_adapter"] or 0) > 0
    return (rc["read1_with_adapter"] or 0) > 0


def replay_doc(ent, why):
    return {"cfg": ent["cfg"].to_json(), "reads": [list(r) for r in ent["reads"]], "argv": ent["impl"]["argv"][5:-1], "why": why,
            "reproduce": "cd /verif && ./check replay <this file>"}


def replay(doc, pid):
    r = doc["replay"]
    if r.get("paired"):
        from . import pairprops

        return pairprops.replay(doc, pid)
    cfg = S.Cfg.from_json(r["cfg"])
    reads = [tuple(x) for x in r["reads"]]

    class C:
        broken = []
        notes = {}

    res = S.correspond(C(), [(cfg, reads)], "replay")
    ent = res[0]
    if ent.get("skip"):
        print("invalid specification:", ent["skip"])
        return 0
    if ent["impl"]["exit"] != 0:
        print("implementation exit", ent["impl"]["exit"], ent["impl"]["error"])
        return 1
    with S.Scratch() as d:
        why = {"C03": lambda: oracle_c03(ent) or oracle_c03_actions(ent, d) or oracle_c03_retain(ent), "C04": lambda: oracle_c04(ent, d), "C10": lambda: oracle_c10(ent, d),
               "C09": lambda: oracle_c09(ent) or oracle_c09_reaching(ent, d), "C11": lambda: oracle_c11(ent, d), "C15": lambda: oracle_c15(ent, d), "C16": lambda: oracle_c16(ent) or oracle_c16_after_pre(ent, d),
               "C17": lambda: oracle_c17(ent), "C20": lambda: oracle_c20(ent)}[pid]()
    print("argv", ent["impl"]["argv"][5:-1])
    print("oracle:", why or "property holds on this input", "| model/impl differences:", ent.get("diffs"))
    return 1 if why else 0
