"""Paired-end oracles and the paired part of the system-level checks (C03, C04, C05, C10, C11, C15, C16).
All oracles work on the implementation's outputs only."""
import json
import os

from . import core, buildimpl
from . import sysutil as S
from . import pairutil as P
from .sysprops import read_index, revcomp

FOCUS = ("filters", "pairfilter", "adapters", "demux", "combinatorial", "pair_adapters", "cut", "qual", "length")


def rid(name):
    return name.split()[0] if name.split() else name


def oracle_sync(ent):
    res, pairs = ent["impl"], ent["pairs"]
    lens = res["files"].get("_lens", {})
    for stem, (a, b) in lens.items():
        if a != b:
            return "files %s.1/.2 hold %d and %d records" % (stem, a, b)
    for k in res["files"]:
        if str(k).startswith("ODD:"):
            return "interleaved file %s holds an odd number of records" % k[4:]
        if str(k).startswith("MISSING:"):
            return "redirect file %s was asked for as the second of two files and was not written" % k[8:]
        if str(k).startswith("UNPARSABLE:"):
            return "output file %s of a run that ended with status 0 is not a sequence of records" % k[11:]
    seen = {}
    for key, prs in res["files"].items():
        if key == "_lens":
            continue
        last = -1
        for pr in prs:
            if pr[0] == "LENGTH MISMATCH":
                return "paired files of %r differ in length" % (key,)
            (n1, s1, q1), (n2, s2, q2) = pr
            i1, i2 = read_index(n1), read_index(n2)
            if i1 != i2 or i1 is None:
                return "record %d of %r pairs %r with %r" % (len(seen), key, n1, n2)
            if i1 <= last:
                return "file %r is not in input order (%r after index %d)" % (key, n1, last)
            last = i1
            seen[i1] = seen.get(i1, 0) + 1
    dup = [i for i, c in seen.items() if c > 1]
    if dup:
        return "pair r%d appears in %d destinations" % (dup[0], seen[dup[0]])
    rep = res["report"]["read_counts"]
    filt = {k: v for k, v in rep["filtered"].items() if v}
    if rep["input"] != len(pairs) or rep["input"] != rep["output"] + sum(filt.values()):
        return "pairs in %d, written %d, filtered %r do not add up" % (rep["input"], rep["output"], filt)
    sink_keys = [k for k in res["files"] if k == 0 or str(k).startswith("name:") or (k == 3 and ent["cfg"].base.demux)]
    written = sum(len(res["files"][k]) for k in sink_keys)
    if written != rep["output"]:
        return "report says %d pairs written, files hold %d" % (rep["output"], written)
    return None


def single_side(pcfg, side):
    """single-end option set that applies to one mate what the paired command applies to it (documented rule)"""
    b = pcfg.base
    c = S.Cfg(fasta=b.fasta, qbase=b.qbase)
    if side == 1:
        c.cuts, c.qcut, c.adapters, c.length = b.cuts, b.qcut, b.adapters, b.length
    else:
        c.cuts = pcfg.cuts2
        c.qcut = pcfg.qcut2 if pcfg.qcut2 is not None else b.qcut
        c.adapters = tuple(({"-A": "-a", "-G": "-g", "-B": "-b"}[f], s) for f, s in pcfg.adapters2)
        c.length = pcfg.length2 if pcfg.length2 is not None else b.length
    for k in ("nextseq", "error_rate", "overlap", "no_indels", "no_wild", "read_wild", "times", "action", "trim_n", "length_tag",
              "strip_suffix", "prefix", "suffix", "zero_cap"):
        setattr(c, k, getattr(b, k))
    c.info_file = True
    return c


def oracle_decision(ent, d):
    """documented pair decision recomputed from single-end runs of each mate"""
    pcfg, pairs, res = ent["cfg"], ent["pairs"], ent["impl"]
    b = pcfg.base
    if b.revcomp or pcfg.pair_adapters or b.poly_a:
        return None
    if b.max_ee is not None or b.max_aer is not None:
        return None
    mates, trimmed = {}, {}
    for side in (1, 2):
        c = single_side(pcfg, side)
        r = S.run_impl(c, [pr[side - 1] for pr in pairs], d)
        if r["exit"] != 0:
            return None
        mates[side] = {read_index(n): (n, s, q) for n, s, q in r["files"].get(0, [])}
        t = {}
        for row in r["info"] or []:
            i = read_index(row[0])
            t[i] = t.get(i, False) or row[1] != "-1"
        trimmed[side] = t
    mode = pcfg.pair_filter or "any"

    def combine(v1, v2, m=mode):
        if v1 is None:
            return v2
        if v2 is None:
            return v1
        return {"any": v1 or v2, "both": v1 and v2, "first": v1}[m]

    m1, m2 = P.parse_len(pcfg.min_len)
    x1, x2 = P.parse_len(pcfg.max_len)
    one_sided = (not b.adapters) or (not pcfg.adapters2)
    umode = "both" if (one_sided and (b.discard_untrimmed or b.untrimmed_output)) else mode
    cats, expect = {}, {}
    for i in range(len(pairs)):
        if i not in mates[1] or i not in mates[2]:
            return None
        (n1, s1, q1), (n2, s2, q2) = mates[1][i], mates[2][i]
        t1, t2 = trimmed[1].get(i, False), trimmed[2].get(i, False)
        cat = dest = None

        def lim(v, sec, own):
            return own if sec == "same" else sec

        if pcfg.min_len is not None and combine(None if m1 is None else len(s1) < m1,
                                                 None if lim(None, m2, m1) is None else len(s2) < lim(None, m2, m1)):
            cat, dest = "too_short", (1 if b.too_short_output else None)
        elif pcfg.max_len is not None and combine(None if x1 is None else len(s1) > x1,
                                                   None if lim(None, x2, x1) is None else len(s2) > lim(None, x2, x1)):
            cat, dest = "too_long", (2 if b.too_long_output else None)
        elif b.max_n is not None and combine(s1.lower().count("n") > b.max_n, s2.lower().count("n") > b.max_n):
            cat = "too_many_n"
        elif b.casava and combine(n1.partition(" ")[2][1:4] == ":Y:", n2.partition(" ")[2][1:4] == ":Y:"):
            cat = "casava_filtered"
        elif pcfg.combinatorial:
            if b.discard_untrimmed and (not t1 or not t2):
                cat = "discard_untrimmed"
        elif b.demux:
            if not t1 and b.discard_untrimmed:
                cat = "discard_untrimmed"
        elif b.discard_trimmed and combine(t1, t2):
            cat = "discard_trimmed"
        elif b.discard_untrimmed and combine(not t1, not t2, umode):
            cat = "discard_untrimmed"
        elif b.untrimmed_output and combine(not t1, not t2, umode):
            cat, dest = "discard_untrimmed", 3
        if cat is not None:
            cats[cat] = cats.get(cat, 0) + 1
            if dest is not None:
                expect.setdefault(dest, []).append(i)
    got = {k: v for k, v in res["report"]["read_counts"]["filtered"].items() if v}
    if got != cats:
        return "pair filter categories %r, documented pair decision gives %r" % (got, cats)
    for dest in (1, 2, 3):
        if b.demux and dest == 3:
            continue
        have = [read_index(pr[0][0]) for pr in res["files"].get(dest, [])]
        if have != expect.get(dest, []):
            return "redirect file %d holds pairs %r, documented decision sends %r there" % (dest, have, expect.get(dest, []))
    return None


def oracle_pair_adapters(ent):
    pcfg, pairs, res = ent["cfg"], ent["pairs"], ent["impl"]
    if not pcfg.pair_adapters:
        return None
    b = pcfg.base
    if b.cuts or pcfg.cuts2 or b.qcut or pcfg.qcut2 or b.nextseq is not None or b.length is not None or pcfg.length2 is not None or b.trim_n or b.poly_a:
        return None
    inp = {i: pr for i, pr in enumerate(pairs)}
    if b.times == 1 and not b.revcomp:
        # whatever the action: a pair for which no rank matches both mates (each adapter's own answer on the input mate) is not changed
        o1, o2 = ent.get("_objs") or P.adapter_objects2(pcfg)
        ent["_objs"] = (o1, o2)
        for key, prs in res["files"].items():
            if key == "_lens":
                continue
            for (n1, s1, q1), (n2, s2, q2) in prs:
                i = read_index(n1)
                in1, in2 = inp[i][0][1], inp[i][1][1]
                if (s1 != in1 or s2 != in2) and not any(x1.match_to(in1) is not None and x2.match_to(in2) is not None for x1, x2 in zip(o1, o2)):
                    return "pair %r: no adapter rank matches both mates, yet %s changed under --pair-adapters (action %s)" % (
                        n1, "R1" if s1 != in1 else "R2", b.action)
    if b.action not in ("trim",):
        return None
    for key, prs in res["files"].items():
        if key == "_lens":
            continue
        for (n1, s1, q1), (n2, s2, q2) in prs:
            i = read_index(n1)
            c1, c2 = s1 != inp[i][0][1], s2 != inp[i][1][1]
            if c1 != c2:
                return "pair %r: one mate trimmed (%s), the other not, under --pair-adapters" % (n1, "R1" if c1 else "R2")
            if not c1 and not c2 and b.times == 1 and not b.revcomp:
                # left alone although some rank -- searched with its own parameters -- matches both mates and would remove something
                o1, o2 = ent.get("_objs") or P.adapter_objects2(pcfg)
                ent["_objs"] = (o1, o2)
                for j, (x1, x2) in enumerate(zip(o1, o2)):
                    m1, m2 = x1.match_to(inp[i][0][1]), x2.match_to(inp[i][1][1])
                    if m1 is not None and m2 is not None and hasattr(m1, "remainder_interval") and hasattr(m2, "remainder_interval"):
                        (l1, h1), (l2, h2) = m1.remainder_interval(), m2.remainder_interval()
                        if (h1 - l1) < len(inp[i][0][1]) or (h2 - l2) < len(inp[i][1][1]):
                            return "pair %r: left unchanged although the adapters of rank %d match both mates under --pair-adapters" % (n1, j)
            if c1 and b.times == 1 and not b.revcomp:
                # some rank must explain both trimmed mates (the single adapters' own answers on the input mates)
                o1, o2 = ent.get("_objs") or P.adapter_objects2(pcfg)
                ent["_objs"] = (o1, o2)
                def ranks(objs, seq_in, seq_out):
                    out = set()
                    for j, ad in enumerate(objs):
                        m = ad.match_to(seq_in)
                        if m is not None and hasattr(m, "remainder_interval"):
                            lo, hi = m.remainder_interval()
                            if seq_in[lo:hi] == seq_out:
                                out.add(j)
                    return out
                j1, j2 = ranks(o1, inp[i][0][1], s1), ranks(o2, inp[i][1][1], s2)
                if j1 and j2 and not (j1 & j2):
                    return "pair %r: R1 trimmed by adapter rank %s, R2 by rank %s under --pair-adapters" % (n1, sorted(j1), sorted(j2))
    return None




def oracle_slices(ent, d):
    """C03 for pairs: every output mate is a contiguous slice of the corresponding input mate (of the other mate when
    --revcomp swapped the pair), qualities in step; mask/lowercase change bases exactly outside what trim keeps"""
    pcfg, pairs, res = ent["cfg"], ent["pairs"], ent["impl"]
    b = pcfg.base
    inp = {i: pr for i, pr in enumerate(pairs)}
    for key, prs in res["files"].items():
        if key == "_lens" or str(key).startswith(("ODD", "UNPARSABLE", "MISSING")):
            continue
        for pr in prs:
            if pr[0] == "LENGTH MISMATCH":
                continue
            for side, (name, seq, qual) in enumerate(pr):
                i = read_index(name)
                if i is None or i not in inp:
                    return "output record %r cannot be attributed to an input pair" % name
                if qual is not None and len(qual) != len(seq):
                    return "record %r: %d bases, %d qualities" % (name, len(seq), len(qual))
                cands = [inp[i][side]] + ([inp[i][1 - side]] if b.revcomp else [])
                ok = False
                for (_, bs, bq) in cands:
                    if b.action in ("mask", "lowercase") and (b.adapters or pcfg.adapters2):
                        for k in range(len(bs) - len(seq) + 1):
                            win = bs[k:k + len(seq)]
                            good = all(x == y or x == "N" for x, y in zip(seq, win)) if b.action == "mask" else seq.upper() == win.upper()
                            if good and (qual is None or qok(qual, bq[k:k + len(seq)], b)):
                                ok = True
                                break
                    else:
                        start = 0
                        while True:
                            k = bs.find(seq, start)
                            if k < 0:
                                break
                            if qual is None or qok(qual, bq[k:k + len(seq)], b):
                                ok = True
                                break
                            start = k + 1
                    if ok:
                        break
                if not ok:
                    return "record %r (%s) is not a slice of its input mate with qualities in step" % (name, seq[:30])
    # actions against the trim run
    if b.action in ("mask", "lowercase") and (b.adapters or pcfg.adapters2):
        c2 = P.PCfg.from_json(pcfg.to_json())
        c2.base.action = "trim"
        c2.min_len = c2.max_len = None
        for k in ("max_n",):
            setattr(c2.base, k, None)
        for k in ("casava", "discard_trimmed", "discard_untrimmed", "untrimmed_output", "too_short_output", "too_long_output", "demux", "poly_a", "trim_n"):
            setattr(c2.base, k, False)
        c2.base.length = c2.length2 = None
        c2.combinatorial = False
        c3 = P.PCfg.from_json(c2.to_json())
        c3.base.action = b.action
        ra, rb = P.run_impl(c2, pairs, d), P.run_impl(c3, pairs, d)
        if ra["exit"] == 0 and rb["exit"] == 0:
            for pa, pb in zip(ra["files"].get(0, []), rb["files"].get(0, [])):
                if pa[0] == "LENGTH MISMATCH" or pb[0] == "LENGTH MISMATCH":
                    break
                for (n1, t, _), (n2, m, _) in zip(pa, pb):
                    if read_index(n1) != read_index(n2):
                        return None
                    good = (m == t)  # a mate without an adapter cutter is passed through unchanged
                    for k in range(len(m) - len(t) + 1):
                        exp = ("N" * k + t + "N" * (len(m) - k - len(t))) if b.action == "mask" else (m[:k].lower() + t.upper() + m[k + len(t):].lower())
                        if m == exp:
                            good = True
                            break
                    if not good:
                        return "paired: action %s wrote %r although trim keeps %r" % (b.action, m, t)
    return None


def qok(q, base_q, b):
    if base_q is None or len(q) != len(base_q):
        return False
    if b.zero_cap:
        return all(x == y or (ord(y) < b.qbase and ord(x) == b.qbase) for x, y in zip(q, base_q))
    return q == base_q


def oracle_sides(ent, d):
    """C10 for pairs: each mate is what the single-end run with the options documented for that mate gives"""
    pcfg, pairs, res = ent["cfg"], ent["pairs"], ent["impl"]
    b = pcfg.base
    if b.revcomp or pcfg.pair_adapters or b.poly_a or b.demux or pcfg.combinatorial:
        return None
    if any(getattr(b, k) for k in ("casava", "discard_trimmed", "discard_untrimmed", "untrimmed_output")) or b.max_n is not None \
            or pcfg.min_len is not None or pcfg.max_len is not None:
        return None
    if "{name}" in b.prefix or "{name}" in b.suffix:
        return None
    for side in (1, 2):
        c = single_side(pcfg, side)
        c.info_file = False
        r = S.run_impl(c, [pr[side - 1] for pr in pairs], d)
        if r["exit"] != 0:
            return None
        got = [pr[side - 1] for pr in res["files"].get(0, []) if pr[0] != "LENGTH MISMATCH"]
        if got != r["files"].get(0, []):
            for x, y in zip(got, r["files"].get(0, [])):
                if x != y:
                    return "R%d of the paired run is %r; the options documented for that mate give %r" % (side, x, y)
            return "R%d: %d records in the paired run, %d in the single-end run" % (side, len(got), len(r["files"].get(0, [])))
    return None


def oracle_c09_sides(ent):
    """the documented choice rule (highest score, then fewer errors, then the adapter given first; rounds; linked adapters), applied to
    each mate with that mate's adapters: candidates are the single adapters' own answers, the cutter must agree"""
    from . import sysprops

    pcfg, pairs = ent["cfg"], ent["pairs"]
    if pcfg.base.revcomp or pcfg.pair_adapters:
        return None
    for side in (1, 2):
        c = single_side(pcfg, side)
        if not c.adapters:
            continue
        why = sysprops.oracle_c09({"cfg": c, "reads": [pr[side - 1] for pr in pairs]})
        if why:
            return "R%d: %s" % (side, why)
    return None


def oracle_side_stats(ent, d):
    """C20 for pairs, 'for R1 and R2 separately': the adapter statistics reported for each mate are those of the single-end run of
    that mate with the options documented for it (matches, histograms of removed lengths by error count, split into 5'/3',
    bases in front of 3' matches); the 'expect' column depends on the read count and GC content of the whole run and is left out"""
    pcfg, pairs, res = ent["cfg"], ent["pairs"], ent["impl"]
    b = pcfg.base
    if b.revcomp or pcfg.pair_adapters or res.get("report") is None:
        return None

    def strip(ads):
        out = []
        for a in ads or []:
            a = json.loads(json.dumps(a))
            for end in ("five_prime_end", "three_prime_end"):
                if a.get(end):
                    a[end].pop("dominant_adjacent_base", None)
                    a[end]["trimmed_lengths"] = [{k: v for k, v in row.items() if k != "expect"} for row in a[end]["trimmed_lengths"]]
            out.append(a)
        return out

    for side in (1, 2):
        c = single_side(pcfg, side)
        c.info_file = False
        # what comes after the adapters does not touch the statistics; filters neither (they sit behind the modifiers)
        r = S.run_impl(c, [pr[side - 1] for pr in pairs], d)
        if r["exit"] != 0 or r.get("report") is None:
            return None
        want = strip(r["report"].get("adapters_read1"))
        got = strip(res["report"].get("adapters_read%d" % side))
        if got != want:
            for x, y in zip(got, want):
                if x != y:
                    return "adapter statistics of R%d: the paired run reports %r, the single-end run of that mate %r" % (side, x, y)
            return "adapter statistics of R%d: %d adapters in the paired report, %d in the single-end run of that mate" % (side, len(got), len(want))
    return None


def oracle_pair_adapter_stats(ent):
    """C20 under --pair-adapters, whatever the action: a pair is processed exactly when some rank matches both mates (each adapter's
    own answer on the mate as it reaches the step), and then one match is applied to -- and tallied for -- an R1 adapter and one for
    an R2 adapter; so the matches reported for the adapters of R1 add up to the number of such pairs, and so do those of R2"""
    pcfg, pairs, res = ent["cfg"], ent["pairs"], ent["impl"]
    b, rep = pcfg.base, res.get("report")
    if not pcfg.pair_adapters or rep is None or b.revcomp or b.times != 1:
        return None
    if b.cuts or pcfg.cuts2 or b.qcut or pcfg.qcut2 or b.nextseq is not None:
        return None
    o1, o2 = ent.get("_objs") or P.adapter_objects2(pcfg)
    ent["_objs"] = (o1, o2)
    t = sum(1 for m1, m2 in pairs if any(x1.match_to(m1[1]) is not None and x2.match_to(m2[1]) is not None for x1, x2 in zip(o1, o2)))
    for side in (1, 2):
        tot = sum(a.get("total_matches", 0) for a in rep.get("adapters_read%d" % side) or [])
        if tot != t:
            return "--pair-adapters (action %s): %d pairs have a rank that matches both mates, the adapters of R%d report %d matches" % (b.action, t, side, tot)
    return None


def oracle_stats_cover_trimming(ent):
    """a lower bound that holds in every paired run, --revcomp included: when nothing but the adapters shortens the reads and the action
    is trim, every written mate that is shorter than the input mate it stems from was shortened by at least one applied match of an
    adapter of that side -- so the matches reported for the adapters of R1 (of R2) are at least as many as the shortened first
    (second) mates"""
    pcfg, pairs, res = ent["cfg"], ent["pairs"], ent["impl"]
    b = pcfg.base
    if b.action != "trim" or res.get("report") is None or res.get("exit") != 0:
        return None
    if b.cuts or pcfg.cuts2 or b.qcut not in (None, "0") or pcfg.qcut2 not in (None, "0") or b.nextseq is not None or b.length is not None \
            or pcfg.length2 is not None or b.trim_n or b.poly_a:
        return None
    inp = {i: pr for i, pr in enumerate(pairs)}
    short = [0, 0]
    for key, prs in res["files"].items():
        if str(key).startswith("_") or not isinstance(prs, list):
            continue
        for pr in prs:
            if not (isinstance(pr, tuple) and len(pr) == 2 and isinstance(pr[0], tuple)):
                continue
            i = read_index(pr[0][0])
            if i is None or i not in inp:
                return None
            srcs = [inp[i][0][1], inp[i][1][1]]
            for side in (0, 1):
                sq = pr[side][1]
                if not any(sq.upper() in (x.upper(), revcomp(x).upper()) for x in srcs):
                    short[side] += 1
    for side in (0, 1):
        ads = res["report"].get("adapters_read%d" % (side + 1)) or []
        tot = sum(a.get("total_matches") or 0 for a in ads)
        w = res["report"]["read_counts"].get("read%d_with_adapter" % (side + 1)) or 0
        if w < short[side]:
            return "report: %d second/first reads with adapter (R%d), but %d written mates of that side were shortened by the adapters" % (w, side + 1, short[side])
        if tot < short[side]:
            return "adapter statistics of R%d report %d matches in all, but %d written mates of that side were shortened by the adapters" % (side + 1, tot, short[side])
    return None


def oracle_untrimmed_unit(ent):
    """the untrimmed filters on pairs when both sides have adapters, the mode is 'any' and nothing but the adapters shortens the reads
    (action trim; --revcomp allowed): a pair goes to the untrimmed route iff at least one mate was left untrimmed -- so no pair with two
    shortened mates may sit in the untrimmed files, and every pair in the main output has two shortened mates"""
    pcfg, pairs, res = ent["cfg"], ent["pairs"], ent["impl"]
    b = pcfg.base
    if b.action != "trim" or not b.adapters or not pcfg.adapters2 or pcfg.pair_adapters or pcfg.pair_filter not in (None, "any"):
        return None
    if not (b.untrimmed_output or b.discard_untrimmed) or b.demux or pcfg.combinatorial or res.get("exit") != 0:
        return None
    if b.cuts or pcfg.cuts2 or b.qcut not in (None, "0") or pcfg.qcut2 not in (None, "0") or b.nextseq is not None or b.length is not None \
            or pcfg.length2 is not None or b.trim_n or b.poly_a:
        return None
    inp = {i: pr for i, pr in enumerate(pairs)}

    def shortened(pr):
        i = read_index(pr[0][0])
        if i is None or i not in inp:
            return None
        srcs = [inp[i][0][1], inp[i][1][1]]
        return [not any(m[1].upper() in (x.upper(), revcomp(x).upper()) for x in srcs) for m in pr]

    for key, prs in res["files"].items():
        if key not in (0, 3) or not isinstance(prs, list):
            continue
        for pr in prs:
            if not (isinstance(pr, tuple) and len(pr) == 2 and isinstance(pr[0], tuple)):
                continue
            sh = shortened(pr)
            if sh is None:
                return None
            if key == 3 and all(sh):
                return "pair %r sits in the untrimmed output although both mates were trimmed" % pr[0][0]
            if key == 0 and not all(sh):
                return "pair %r is in the main output although a mate was left untrimmed and the untrimmed pairs are redirected or discarded" % pr[0][0]
    return None


def reduced_pcfg(pcfg, upto):
    """the paired option set cut down to the read-modifying steps up to [upto] ('cut', 'qual', 'adapters', 'polya'), with every
    filter, redirect, renaming and later step removed: what reaches / leaves one step can then be read off the outputs"""
    import copy

    c = copy.deepcopy(pcfg)
    b = c.base
    c.min_len = c.max_len = None
    c.pair_filter = None
    c.combinatorial = False
    c.interleaved_in = c.interleaved_out = c.redirect_two = False
    b.max_n = b.max_ee = b.max_aer = None
    b.casava = b.discard_trimmed = b.discard_untrimmed = b.untrimmed_output = False
    b.too_short_output = b.too_long_output = False
    b.demux = False
    b.info_file, b.side_files = False, ()
    b.rename, b.length_tag, b.strip_suffix, b.prefix, b.suffix, b.zero_cap = None, None, (), "", "", False
    b.length, c.length2, b.trim_n = None, None, False
    order = ["cut", "qual", "adapters", "polya"]
    k = order.index(upto)
    if k < 1:
        b.qcut, c.qcut2, b.nextseq = None, None, None
    if k < 2:
        b.adapters, c.adapters2, c.pair_adapters, b.revcomp = (), (), False, False
    if k < 3:
        b.poly_a = False
    return c


def oracle_step_counts(ent, d):
    """the base-pair figures of the report, per mate: 'quality-trimmed' is what the quality-trimming steps removed from that mate
    and 'poly-A-trimmed' what the poly-A step removed -- measured as the difference between the run up to the step before and the
    run up to that step, for R1 and R2 separately"""
    pcfg, pairs, res = ent["cfg"], ent["pairs"], ent["impl"]
    b = pcfg.base
    if b.revcomp or res.get("exit") != 0 or res.get("report") is None:
        return None
    bp = res["report"]["basepair_counts"]

    def lens(r):
        out = [0, 0]
        for pr in r["files"].get(0, []):
            if isinstance(pr, tuple) and len(pr) == 2 and isinstance(pr[0], tuple):
                out[0] += len(pr[0][1])
                out[1] += len(pr[1][1])
        return out

    def run(upto):
        r = P.run_impl(reduced_pcfg(pcfg, upto), pairs, d)
        return lens(r) if r["exit"] == 0 and len(r["files"].get(0, [])) == len(pairs) else None

    if b.qcut not in (None,) or pcfg.qcut2 is not None or b.nextseq is not None:
        before, after = run("cut"), run("qual")
        if before is not None and after is not None:
            for i in (0, 1):
                got = bp.get("quality_trimmed_read%d" % (i + 1)) or 0
                if got != before[i] - after[i]:
                    return "report: %d bp quality-trimmed from R%d, the quality-trimming steps removed %d" % (got, i + 1, before[i] - after[i])
    if b.poly_a:
        before, after = run("adapters"), run("polya")
        if before is not None and after is not None:
            for i in (0, 1):
                got = bp.get("poly_a_trimmed_read%d" % (i + 1)) or 0
                if got != before[i] - after[i]:
                    return "report: %d bp poly-A-trimmed from R%d, the poly-A step removed %d" % (got, i + 1, before[i] - after[i])
    return None


def oracle_late_shorten(ent, d):
    """C10 for pairs, -l / -L: shortening comes after adapter trimming (and poly-A trimming), whatever kind of step the adapters are
    (two single-end steps, --pair-adapters, paired --revcomp): the run without -l/-L, shortened afterwards, gives the same reads"""
    import copy

    pcfg, pairs, res = ent["cfg"], ent["pairs"], ent["impl"]
    b = pcfg.base
    if b.length is None and pcfg.length2 is None:
        return None
    if b.trim_n or b.length_tag is not None or b.max_n is not None or pcfg.min_len is not None or pcfg.max_len is not None or b.casava:
        return None
    if res.get("exit") != 0:
        return None
    c = copy.deepcopy(pcfg)
    c.base.length, c.length2 = None, None
    c.base.info_file, c.base.side_files = False, ()
    r = P.run_impl(c, pairs, d)
    if r["exit"] != 0:
        return None
    lens = (b.length, pcfg.length2 if pcfg.length2 is not None else b.length)

    def short(rec, n):
        if n is None or not isinstance(rec, tuple) or len(rec) != 3:
            return rec
        name, s, q = rec
        if n >= 0:
            return (name, s[:n], None if q is None else q[:n])
        return (name, s[n:], None if q is None else q[n:])

    for key, prs in r["files"].items():
        if str(key).startswith("_") or not isinstance(prs, list):
            continue
        want = [tuple(short(rec, n) for rec, n in zip(pr, lens)) if isinstance(pr, tuple) and len(pr) == 2 and isinstance(pr[0], tuple) else pr
                for pr in prs]
        got = res["files"].get(key, [])
        if got != want:
            for x, y in zip(got, want):
                if x != y:
                    return "output %r has %r; the same run without -l/-L, shortened afterwards, gives %r" % (key, x, y)
            return "output %r: %d records; without -l/-L %d" % (key, len(got), len(want))
    return None


def oracle_paired_revcomp(ent):
    pcfg = ent["cfg"]
    b = pcfg.base
    if not b.revcomp or pcfg.pair_adapters or not (b.adapters or pcfg.adapters2):
        return None
    from cutadapt.modifiers import AdapterCutter, PairedReverseComplementer, ModificationInfo
    from dnaio import SequenceRecord

    action = None if b.action == "none" else b.action
    if action == "lowercase":
        return None  # in-place upper-casing of shared record objects: compared through the model only

    def cutters():
        o1, o2 = P.adapter_objects2(pcfg)
        return (AdapterCutter(o1, b.times, action, False) if o1 else None), (AdapterCutter(o2, b.times, action, False) if o2 else None)

    for (n1, s1, q1), (n2, s2, q2) in ent["pairs"]:
        def rec(n, s, q):
            return SequenceRecord(n, s, q)

        c1, c2 = cutters()
        f1 = c1.match_and_trim(rec(n1, s1, q1)) if c1 else (rec(n1, s1, q1), [])
        f2 = c2.match_and_trim(rec(n2, s2, q2)) if c2 else (rec(n2, s2, q2), [])
        c1, c2 = cutters()
        w1 = c1.match_and_trim(rec(n2, s2, q2)) if c1 else (rec(n2, s2, q2), [])
        w2 = c2.match_and_trim(rec(n1, s1, q1)) if c2 else (rec(n1, s1, q1), [])
        un = sum(m.score for m in f1[1]) + sum(m.score for m in f2[1])
        sw = sum(m.score for m in w1[1]) + sum(m.score for m in w2[1])
        want = bool(w1[1] or w2[1]) and sw > un
        c1, c2 = cutters()
        st = PairedReverseComplementer(c1, c2)
        r1, r2 = rec(n1, s1, q1), rec(n2, s2, q2)
        i1, i2 = ModificationInfo(r1), ModificationInfo(r2)
        o1, o2 = st(r1, r2, i1, i2)
        e1, e2 = (w1[0], w2[0]) if want else (f1[0], f2[0])
        if (o1.sequence, o2.sequence) != (e1.sequence, e2.sequence) or bool(i1.is_rc) != want:
            return "pair %r: unswapped score %d, swapped score %d (swapped matches: %d): stage returned (%r, %r) rc=%r" % (
                n1, un, sw, len(w1[1]) + len(w2[1]), o1.sequence, o2.sequence, i1.is_rc)
    return None


def oracle_pdemux(ent, d):
    """paired {name} demultiplexing: the pair goes to the file of the adapter that the LAST match on R1 belongs to
    (the single-end run of R1 with an info file says which that is)"""
    pcfg, res = ent["cfg"], ent["impl"]
    b = pcfg.base
    if not b.demux or pcfg.combinatorial or b.revcomp or pcfg.pair_adapters:
        return None
    c1 = single_side(pcfg, 1)
    r1 = S.run_impl(c1, [pr[0] for pr in ent["pairs"]], d)
    if r1["exit"] != 0:
        return None
    last = {}
    for row in r1["info"] or []:
        if row[1] != "-1":
            last[read_index(row[0])] = row[7].split(";")[0]
    for key, prs in res["files"].items():
        if not str(key).startswith("name:"):
            continue
        for pr in prs:
            if not isinstance(pr, tuple) or len(pr) != 2 or not isinstance(pr[0], tuple):
                continue
            idx = read_index(pr[0][0])
            want = "name:" + last[idx] if idx in last else "name:unknown"
            if key != want and not (idx not in last and key == 3):
                return "pair %r is in file %r, the last match on R1 says %r" % (pr[0][0], key, want)
    return None


PAIRED_ORACLES = {
    "C03": lambda ent, d: oracle_slices(ent, d),
    "C04": lambda ent, d: oracle_sync(ent) or oracle_step_counts(ent, d) or oracle_stats_cover_trimming(ent),
    "C05": lambda ent, d: oracle_sync(ent) or oracle_pair_adapters(ent) or oracle_decision(ent, d) or oracle_untrimmed_unit(ent),
    "C09": lambda ent, d: oracle_sides(ent, d) or oracle_c09_sides(ent),
    "C10": lambda ent, d: oracle_sides(ent, d) or oracle_late_shorten(ent, d),
    "C11": lambda ent, d: oracle_decision(ent, d),
    "C15": lambda ent, d: oracle_sync(ent) or oracle_pdemux(ent, d) or oracle_decision(ent, d),
    "C16": lambda ent, d: oracle_paired_revcomp(ent),
    "C20": lambda ent, d: oracle_side_stats(ent, d) or oracle_stats_cover_trimming(ent) or oracle_pair_adapter_stats(ent),
}
PAIRED_FOCUS = {
    "C03": ("action", "adapters", "revcomp", "cut", "qual", "length", "times", "pairactions:0.2"),
    "C04": ("filters", "demux", "combinatorial", "adapters", "qual", "nextseq", "sidefiles:0.3", "revcomp:0.25", "adapters2:0.7"),
    "C09": ("adapters", "adapters2:0.7", "times", "action"),
    "C05": tuple(x for x in FOCUS if x != "pair_adapters") + ("pair_adapters:0.35",),
    "C10": ("cut", "qual", "length", "adapters", "trimn", "names", "zerocap", "nextseq", "stageorder:0.15", "onesided:0.3"),
    "C11": ("filters", "pairfilter", "adapters", "onesided:0.3"),
    "C15": ("demux", "combinatorial", "adapters", "times"),
    "C16": ("revcomp", "adapters", "times", "action"),
    "C20": ("adapters", "adapters2:0.7", "times", "onesided:0.3", "revcomp", "pairactions:0.12"),
}


def adjust(pid, rng, pcfg, pairs=None):
    b = pcfg.base
    if pid == "C16" and (b.adapters or pcfg.adapters2) and not pcfg.pair_adapters:
        b.revcomp = True
        if rng.random() < 0.4:
            b.error_rate, b.overlap = rng.choice([0.5, 0.7]), rng.choice([3, 5])
    if pid == "C20" and (b.adapters or pcfg.adapters2) and not pcfg.pair_adapters and rng.random() < 0.35:
        # nothing but the adapters shortens the reads, action trim, --revcomp: every shortened mate then stands for an applied match
        b.revcomp, b.action = True, "trim"
        b.cuts, pcfg.cuts2, b.qcut, pcfg.qcut2, b.nextseq, b.length, pcfg.length2, b.trim_n, b.poly_a = (), (), None, None, None, None, None, False, False
    if pid == "C05" and b.adapters and pcfg.adapters2 and not pcfg.pair_adapters and not pcfg.combinatorial and rng.random() < 0.25:
        # both sides have adapters, nothing else shortens the reads, untrimmed pairs are redirected or discarded (mode 'any'), with --revcomp
        b.revcomp, b.action, b.demux = rng.random() < 0.85, "trim", False
        b.cuts, pcfg.cuts2, b.qcut, pcfg.qcut2, b.nextseq, b.length, pcfg.length2, b.trim_n, b.poly_a = (), (), None, None, None, None, None, False, False
        pcfg.pair_filter = rng.choice([None, "any"])
        b.discard_trimmed = False
        if rng.random() < 0.75:   # (redirected pairs can be inspected, discarded ones cannot)
            b.untrimmed_output, b.discard_untrimmed = True, False
        else:
            b.untrimmed_output, b.discard_untrimmed = False, True
    elif pid == "C05" and (b.adapters or pcfg.adapters2) and not pcfg.pair_adapters and not pcfg.combinatorial and rng.random() < 0.25:
        # --discard-trimmed with adapters on one side only and an explicit pair-filter mode: the mode still decides
        # ('both' can then never discard; 'first' cannot when only R2 has adapters)
        mode = rng.choice(["both", "both", "first", "any"])
        if mode == "first" and pcfg.adapters2 and rng.random() < 0.8:
            b.adapters = ()
        elif b.adapters and (not pcfg.adapters2 or rng.random() < 0.5):
            pcfg.adapters2 = ()
        else:
            b.adapters = ()
        if b.adapters or pcfg.adapters2:
            b.revcomp, b.poly_a, b.demux = False, False, False
            b.discard_trimmed, b.discard_untrimmed, b.untrimmed_output = True, False, False
            pcfg.pair_filter = mode
    elif pid == "C05" and (b.adapters or pcfg.adapters2) and not pcfg.pair_adapters and not pcfg.combinatorial and rng.random() < 0.15:
        # untrimmed filters with adapters on one side only and mode 'any' (given or by default): 'both' is forced, whichever side has the adapters
        if b.adapters and (not pcfg.adapters2 or rng.random() < 0.4):
            pcfg.adapters2 = ()
        else:
            b.adapters = ()
        b.revcomp, b.poly_a, b.demux, b.discard_trimmed = False, False, False, False
        pcfg.pair_filter = rng.choice([None, "any"])
        if rng.random() < 0.5:
            b.untrimmed_output, b.discard_untrimmed = True, False
        else:
            b.untrimmed_output, b.discard_untrimmed = False, True
    if (pid == "C05" and pcfg.pair_adapters and b.times == 1 and not b.revcomp and b.action == "trim" and rng.random() < 0.5
            and not (b.cuts or pcfg.cuts2 or b.qcut or pcfg.qcut2 or b.nextseq is not None or b.length is not None or pcfg.length2 is not None or b.trim_n or b.poly_a)):
        # only the adapter pairs touch the reads: every action leaves a pair alone when no rank matches both mates
        b.action = rng.choice(S.ACTIONS + ["lowercase"])
        if b.action == "lowercase" and pairs is not None:
            # soft-masked input: a pair that is left alone keeps its lower-case letters
            for i, ((n1, s1, q1), (n2, s2, q2)) in enumerate(pairs):
                if rng.random() < 0.6:
                    k1, k2 = rng.randint(0, len(s1)), rng.randint(0, len(s2))
                    pairs[i] = ((n1, s1[:k1].lower() + s1[k1:], q1), (n2, s2[:k2].lower() + s2[k2:], q2))
    if pid == "C04" and b.adapters and pcfg.adapters2 and not pcfg.pair_adapters and not pcfg.combinatorial and rng.random() < 0.15:
        # paired --revcomp with adapters on both sides and nothing else that shortens the reads: the reported reads-with-adapter and
        # the adapters' match counts of each side cover the mates of that side that were shortened
        b.revcomp, b.action, b.times = True, "trim", 1
        b.cuts, pcfg.cuts2, b.qcut, pcfg.qcut2, b.nextseq, b.length, pcfg.length2, b.trim_n, b.poly_a = (), (), None, None, None, None, None, False, False
        if pairs is not None:
            # in about half of the pairs the mates arrive exchanged: the adapters are then found only after the swap
            for i, ((n1, s1, q1), (n2, s2, q2)) in enumerate(pairs):
                if rng.random() < 0.5:
                    pairs[i] = ((n1, s2, q2), (n2, s1, q1))
    if pid == "C10" and not b.fasta and rng.random() < 0.12:
        # quality base 64 with -q and no -Q: the shared quality step of R2 decodes with the same base as that of R1
        b.qbase = 64
        b.qcut = rng.choice(["10", "20", "15,10", "5,0"])
        pcfg.qcut2 = None
        b.revcomp, b.poly_a, b.demux, b.casava, b.max_n = False, False, False, False, None
        b.discard_trimmed = b.discard_untrimmed = b.untrimmed_output = False
        pcfg.min_len = pcfg.max_len = None
        b.too_short_output = b.too_long_output = False
        pcfg.pair_adapters = pcfg.combinatorial = False
        if "{name}" in b.prefix or "{name}" in b.suffix:
            b.prefix = b.suffix = ""
    if pid == "C15" and b.adapters and not b.discard_trimmed and not pcfg.combinatorial:
        b.demux = True
        b.demux_twice = rng.random() < 0.3
    return pcfg


def paired_part(ctx, pid, n, dist):
    """run n paired cases: correspondence with the paired model + the paired oracle of this property"""
    rng = ctx.rng
    cases = []
    corpus = os.path.join(core.VERIF, "corpus", pid + ".paired.json")
    if os.path.exists(corpus):
        for e in json.load(open(corpus)):
            cases.append((P.PCfg.from_json(e["cfg"]), [tuple(tuple(m) for m in pr) for pr in e["pairs"]]))
    for _ in range(n):
        pcfg, pairs = P.rand_pcase(rng, PAIRED_FOCUS[pid])
        cases.append((adjust(pid, rng, pcfg, pairs), pairs))
    results = P.correspond(ctx, cases, "ppipeline(model) vs cutadapt.cli.main [paired]")
    shown = 0
    with S.Scratch() as d:
        for ent in results:
            if ent.get("skip"):
                continue
            pcfg, raw = ent["cfg"], ent["impl"]
            ctx.count(("paired", json.dumps(pcfg.to_json(), sort_keys=True), repr(ent["pairs"])), raw["exit"] == 0)
            dist["paired"] = dist.get("paired", 0) + 1
            if raw["exit"] != 0:
                sig = "paired: implementation fails: exit %s %s" % (raw["exit"], (raw["error"] or "").split(":")[0])
                ctx.violation(sig, replay_doc(ent, sig))
                continue
            try:
                why = PAIRED_ORACLES[pid](ent, d)
            except Exception as e:
                why = "paired oracle could not interpret the output: %s: %s" % (type(e).__name__, e)
            if why:
                ctx.violation("paired: " + (why[8:] if why.startswith("paired: ") else why).split(":")[0][:80], replay_doc(ent, why))
            if ent.get("diffs") and shown < 10:
                shown += 1
                ctx.violation("correspondence:ppipeline " + ent["diffs"][0].split(":")[0], dict(replay_doc(ent, "model and implementation differ"), diffs=ent["diffs"][:4]),
                              found_input=False)
    return results


def replay_doc(ent, why):
    return {"paired": True, "cfg": ent["cfg"].to_json(), "pairs": [[list(m) for m in pr] for pr in ent["pairs"]],
            "argv": [a for a in ent["impl"]["argv"][3:] if not a.startswith("/var")], "why": why, "reproduce": "cd /verif && ./check replay <this file>"}


def replay(doc, pid):
    r = doc["replay"]
    pcfg = P.PCfg.from_json(r["cfg"])
    pairs = [tuple(tuple(m) for m in pr) for pr in r["pairs"]]

    class C:
        broken = []
        notes = {}

    ent = P.correspond(C(), [(pcfg, pairs)], "replay")[0]
    if ent.get("skip"):
        print("invalid specification", ent["skip"])
        return 0
    if ent["impl"]["exit"] != 0:
        print("implementation exit", ent["impl"]["exit"], ent["impl"]["error"])
        return 1
    with S.Scratch() as d:
        why = PAIRED_ORACLES[pid](ent, d)
    print("argv", r["argv"])
    print("oracle:", why or "property holds on this input", "| model/impl differences:", ent.get("diffs"))
    return 1 if why else 0
