"""Paired-end system-level machinery (C05 and the paired parts of C03/C04/C10/C11/C15/C16):
option sets -> argv for cutadapt.cli.main and -> one `ppipeline` line for the extracted model
(Model/Paired.v); canonical comparison of the paired output files and of the JSON report counts."""
import io
import json
import os
import sys

from . import alignutil as U
from . import sysutil as S

MODES = ["any", "both", "first"]


class PCfg:
    FIELDS = dict(
        base=None, cuts2=(), qcut2=None, adapters2=(), length2=None, pair_adapters=False, pair_filter=None,
        min_len=None, max_len=None,          # strings as given to -m / -M: "10", "10:20", "10:", ":20"
        combinatorial=False, interleaved_in=False, interleaved_out=False,
        redirect_two=False,   # with an interleaved main output the redirect files are still given as two files
    )

    def __init__(self, **kw):
        for k, v in self.FIELDS.items():
            setattr(self, k, kw.pop(k, v))
        if self.base is None:
            self.base = S.Cfg()
        if kw:
            raise TypeError(sorted(kw))

    def to_json(self):
        d = {k: (list(getattr(self, k)) if isinstance(getattr(self, k), tuple) else getattr(self, k)) for k in self.FIELDS if k != "base"}
        d["base"] = self.base.to_json()
        return d

    @staticmethod
    def from_json(d):
        d = dict(d)
        d["base"] = S.Cfg.from_json(d["base"])
        for k in ("cuts2", "adapters2"):
            d[k] = tuple(tuple(x) if isinstance(x, list) else x for x in d.get(k, ()))
        return PCfg(**d)

    def argv(self, d, rng=None):
        b = self.base
        ext = b.ext()
        groups = [g for g in b.option_groups(d) if g[0] not in ("-m", "-M", "--untrimmed-output", "--too-short-output", "--too-long-output")]
        for c in self.cuts2:
            groups.append(["-U", str(c)])
        if self.qcut2 is not None:
            groups.append(["-Q", self.qcut2])
        for flag, spec in self.adapters2:
            groups.append([flag, spec])
        if self.length2 is not None:
            groups.append(["-L", str(self.length2)])
        if self.pair_adapters:
            groups.append(["--pair-adapters"])
        if self.pair_filter is not None:
            groups.append(["--pair-filter=" + self.pair_filter])
        if self.min_len is not None:
            groups.append(["-m", self.min_len])
        if self.max_len is not None:
            groups.append(["-M", self.max_len])
        inter_out = self.interleaved_out and not (b.demux or self.combinatorial)
        if b.untrimmed_output:
            groups.append(["--untrimmed-output", os.path.join(d, "untrimmed.1." + ext)])
            if not inter_out or self.redirect_two:
                groups.append(["--untrimmed-paired-output", os.path.join(d, "untrimmed.2." + ext)])
        if b.too_short_output:
            groups.append(["--too-short-output", os.path.join(d, "tooshort.1." + ext)])
            if not inter_out or self.redirect_two:
                groups.append(["--too-short-paired-output", os.path.join(d, "tooshort.2." + ext)])
        if b.too_long_output:
            groups.append(["--too-long-output", os.path.join(d, "toolong.1." + ext)])
            if not inter_out or self.redirect_two:
                groups.append(["--too-long-paired-output", os.path.join(d, "toolong.2." + ext)])
        if rng is not None:
            keep = ("-u", "-U", "-a", "-g", "-b", "-A", "-G", "-B", "--strip-suffix")
            kept = [x for x in groups if x[0] in keep]
            rng.shuffle(groups)
            it = iter(kept)
            groups = [next(it) if x[0] in keep else x for x in groups]
        if self.combinatorial:
            o1, o2 = "out.{name1}-{name2}.1." + ext, "out.{name1}-{name2}.2." + ext
        elif b.demux:
            nm = "{name}.{name}" if b.demux_twice else "{name}"
            o1, o2 = "out." + nm + ".1." + ext, "out." + nm + ".2." + ext
        else:
            o1, o2 = "out.1." + ext, "out.2." + ext
        argv = ["--no-index", "--json", os.path.join(d, "report.json")]
        if inter_out:
            argv += ["--interleaved", "-o", os.path.join(d, "out.inter." + ext)]
        else:
            argv += ["-o", os.path.join(d, o1), "-p", os.path.join(d, o2)]
        for x in groups:
            argv += x
        if self.interleaved_in:
            if "--interleaved" not in argv:
                argv.append("--interleaved")
            argv.append(os.path.join(d, "in.inter." + ext))
        else:
            argv += [os.path.join(d, "in.1." + ext), os.path.join(d, "in.2." + ext)]
        return argv


def write_records(path, recs, fasta):
    with open(path, "w") as f:
        for name, seq, qual in recs:
            if fasta:
                f.write(">%s\n%s\n" % (name, seq))
            else:
                f.write("@%s\n%s\n+\n%s\n" % (name, seq, qual))


def adapter_objects2(pcfg):
    from cutadapt.parser import make_adapters_from_specifications

    b = pcfg.base
    S.reset_impl_state()
    params = dict(max_errors=0.1 if b.error_rate is None else b.error_rate, min_overlap=3 if b.overlap is None else b.overlap,
                  read_wildcards=b.read_wild, adapter_wildcards=not b.no_wild, indels=not b.no_indels)
    m1 = {"-a": "back", "-g": "front", "-b": "anywhere"}
    m2 = {"-A": "back", "-G": "front", "-B": "anywhere"}
    o1 = make_adapters_from_specifications([(m1[f], s) for f, s in b.adapters], params)
    o2 = make_adapters_from_specifications([(m2[f], s) for f, s in pcfg.adapters2], params)
    S.reset_impl_state()
    return o1, o2


def run_impl(pcfg, pairs, d, rng=None):
    import logging
    import cutadapt.cli as cli

    for f in os.listdir(d):
        p = os.path.join(d, f)
        if os.path.isfile(p):
            os.remove(p)
    b = pcfg.base
    ext = b.ext()
    if pcfg.interleaved_in:
        write_records(os.path.join(d, "in.inter." + ext), [r for pr in pairs for r in pr], b.fasta)
    else:
        write_records(os.path.join(d, "in.1." + ext), [pr[0] for pr in pairs], b.fasta)
        write_records(os.path.join(d, "in.2." + ext), [pr[1] for pr in pairs], b.fasta)
    argv = pcfg.argv(d, rng)
    S.reset_impl_state()
    if not logging.root.handlers:
        logging.root.addHandler(logging.NullHandler())
    code, err = 0, None
    old = sys.stdout, sys.stderr
    sys.stdout, sys.stderr = io.StringIO(), io.StringIO()
    try:
        cli.main(argv)
    except SystemExit as e:
        code = e.code if isinstance(e.code, int) else 1
    except Exception as e:  # noqa
        code, err = -1, "%s: %s" % (type(e).__name__, e)
    finally:
        captured = sys.stdout.getvalue() if hasattr(sys.stdout, "getvalue") else ""
        sys.stdout, sys.stderr = old
    res = {"exit": code, "error": err, "argv": argv, "files": {}, "report": None, "raw_counts": {}, "stdout": captured}
    if code != 0:
        return res
    singles = {}
    for f in sorted(os.listdir(d)):
        if f.startswith("in.") or f == "report.json" or not f.endswith("." + ext):
            continue
        try:
            singles[f[: -len(ext) - 1]] = S.read_records(os.path.join(d, f))
        except (ValueError, IndexError) as e:
            # a record file this run wrote cannot be read back as records: reported by the sync oracle with this case as the input
            res["files"]["UNPARSABLE:" + f] = [str(e).replace(d, "")]
    res["raw_counts"] = {k: len(v) for k, v in singles.items()}
    keys = {}
    for stem, recs in singles.items():
        if stem.endswith(".inter"):
            if len(recs) % 2:
                res["files"]["ODD:" + stem] = recs
                continue
            keys[stem[:-6]] = [(recs[i], recs[i + 1]) for i in range(0, len(recs), 2)]
        elif stem.endswith(".1"):
            other = singles.get(stem[:-2] + ".2")
            inter_main = pcfg.interleaved_out and not (b.demux or pcfg.combinatorial)
            if other is None and stem[:-2] in ("tooshort", "toolong", "untrimmed") and (not inter_main or pcfg.redirect_two):
                # two redirect files were asked for: the second one must exist
                res["files"]["MISSING:" + stem[:-2] + ".2." + ext] = []
            elif other is None:
                # redirect files written interleaved into the first path
                if len(recs) % 2 == 0:
                    keys[stem[:-2]] = [(recs[i], recs[i + 1]) for i in range(0, len(recs), 2)]
                else:
                    res["files"]["ODD:" + stem] = recs
            else:
                res["files"].setdefault("_lens", {})[stem[:-2]] = (len(recs), len(other))
                keys[stem[:-2]] = list(zip(recs, other)) if len(recs) == len(other) else [("LENGTH MISMATCH", len(recs), len(other))]
    names = {"out": 0, "tooshort": 1, "toolong": 2, "untrimmed": 3}
    for stem, prs in keys.items():
        if stem in names:
            res["files"][names[stem]] = prs
        elif stem.startswith("out."):
            res["files"]["name:" + (S.demux_key(stem[4:], b.demux_twice) if b.demux and not pcfg.combinatorial else stem[4:])] = prs
    rp = os.path.join(d, "report.json")
    if os.path.exists(rp):
        res["report"] = json.load(open(rp))
    return res


def _qcut_field(q):
    if q is None:
        return ""
    if q == "0":
        return "0"
    parts = [int(x) for x in q.split(",")]
    if len(parts) == 1:
        parts = [0, parts[0]]
    return "%d %d" % tuple(parts)


def parse_len(s):
    """-m/-M argument -> (first or None, second: 'same' | None | int)"""
    if s is None:
        return None, "same"
    f = s.split(":")
    if len(f) == 1:
        return int(f[0]), "same"
    return (int(f[0]) if f[0] != "" else None), (int(f[1]) if f[1] != "" else None)


def model_line(pcfg, objs1, objs2, pairs):
    b = pcfg.base
    m1, m2 = parse_len(pcfg.min_len)
    x1, x2 = parse_len(pcfg.max_len)
    b2 = S.Cfg.from_json(b.to_json())
    b2.min_len = m1 if m1 is not None else (m2 if isinstance(m2, int) else None)
    b2.max_len = x1 if x1 is not None else (x2 if isinstance(x2, int) else None)
    line = S.model_line(b2, objs1, [])
    fields = line[len("pipeline "):].split("|")
    fields[16] = ";".join("%s,%s,%s/%s,%s,%s" % (U.enc(a[0]), U.enc(a[1]), "-" if a[2] is None else U.enc(a[2]),
                                                 U.enc(c[0]), U.enc(c[1]), "-" if c[2] is None else U.enc(c[2])) for a, c in pairs)

    def second(first, sec):
        if sec == "same":
            return ""
        if sec is None:
            return "N"
        return str(sec)

    extra = [
        " ".join(str(c) for c in pcfg.cuts2 if c != 0), _qcut_field(pcfg.qcut2), ";".join(S.adapter_field(a) for a in objs2),
        "" if pcfg.length2 is None else str(pcfg.length2),
        "%d %d %d %d %d" % (int(pcfg.pair_adapters), int(pcfg.combinatorial), 0,
                            int(pcfg.min_len is not None and m1 is None), int(pcfg.max_len is not None and x1 is None)),
        "" if pcfg.pair_filter is None else str(MODES.index(pcfg.pair_filter)),
        second(m1, m2) if pcfg.min_len is not None else "", second(x1, x2) if pcfg.max_len is not None else "",
    ]
    return "ppipeline " + "|".join(fields + extra)


def parse_model(line, objs1, objs2, pcfg):
    if line.startswith("ERROR"):
        return {"error": line}
    stats, filt, files = line.split("|")
    v = [int(x) for x in stats.split()]
    keys = ["n", "bp1", "bp2", "written", "wbp1", "wbp2", "with1", "with2", "rc", "q1", "q2", "pa1", "pa2"]
    res = dict(zip(keys, v))
    res["filtered"] = {}
    for x in filt.split():
        c, k = x.split(":")
        res["filtered"][S.CAT_INV[int(c)]] = int(k)
    res["files"] = {}
    for f in files.split("#") if files else []:
        dst, recs = f.split("=", 1)
        dst = int(dst)
        if dst >= 1000:
            k1, k2 = (dst - 1000) // 100, (dst - 1000) % 100
            key = "name:%s-%s" % ("unknown" if k1 == 0 else objs1[k1 - 1].name, "unknown" if k2 == 0 else objs2[k2 - 1].name)
        elif dst >= 10:
            key = "name:" + objs1[dst - 10].name
        elif dst == 9:
            key = "name:unknown"
        else:
            key = dst
        out = []
        for pr in recs.split(";"):
            a, c = pr.split("/")

            def rec(t):
                nm, sq, q = t.split(",")
                return (S.dec(nm), S.dec(sq), None if q.strip() == "-" else S.dec(q))

            out.append((rec(a), rec(c)))
        res["files"][key] = out
    return res


def canon_impl(res):
    rep = res["report"]
    rc, bp = rep["read_counts"], rep["basepair_counts"]
    return {
        "n": rc["input"], "bp1": bp["input_read1"], "bp2": bp["input_read2"], "written": rc["output"], "wbp1": bp["output_read1"],
        "wbp2": bp["output_read2"], "with1": rc["read1_with_adapter"] or 0, "with2": rc["read2_with_adapter"] or 0,
        "rc": rc["reverse_complemented"] or 0, "q1": bp["quality_trimmed_read1"] or 0, "q2": bp["quality_trimmed_read2"] or 0,
        "pa1": bp["poly_a_trimmed_read1"] or 0, "pa2": bp["poly_a_trimmed_read2"] or 0,
        "filtered": {k: v for k, v in rc["filtered"].items() if v}, "files": {k: v for k, v in res["files"].items() if k != "_lens"},
    }


def compare(model, impl):
    diffs = []
    for k in ("n", "bp1", "bp2", "written", "wbp1", "wbp2", "with1", "with2", "rc", "q1", "q2", "pa1", "pa2"):
        if model[k] != impl[k]:
            diffs.append("%s: model %r impl %r" % (k, model[k], impl[k]))
    if {k: v for k, v in model["filtered"].items() if v} != impl["filtered"]:
        diffs.append("filtered: model %r impl %r" % (model["filtered"], impl["filtered"]))
    for k in sorted(set(model["files"]) | set(impl["files"]), key=str):
        a, b = model["files"].get(k, []), impl["files"].get(k, [])
        if a != b:
            diffs.append("file %s: model %r impl %r" % (k, a[:2], b[:2]))
    return diffs


# ---------------------------------------------------------------- generator
def upper_flag(f):
    return {"-a": "-A", "-g": "-G", "-b": "-B"}[f]


def rand_pcase(rng, focus=(), npairs=None):
    def fprob(name, p):
        # focus entries are option-group names (probability 0.75) or "name:probability"
        for x in focus:
            if x == name:
                return 0.75
            if x.startswith(name + ":"):
                return float(x.split(":", 1)[1])
        return p
    f = lambda name, p: rng.random() < fprob(name, p)
    base, plant1 = S.rand_cfg(rng, tuple(x for x in focus if ":" not in x))
    # --info-file / --rest-file / --wildcard-file see R1 only and must not influence what happens to the pair
    base.info_file = bool(base.adapters) and f("sidefiles", 0.1)
    if any("..." in spec for _, spec in base.adapters):
        base.side_files = ()
    elif base.info_file and rng.random() < 0.5:
        base.side_files = tuple(k for k in ("rest", "wildcard") if rng.random() < 0.6)
    base.max_ee = base.max_aer = None
    if isinstance(base.max_n, float):
        base.max_n = None
    base.rename = None
    min_len, max_len = base.min_len, base.max_len
    base.min_len = base.max_len = None
    p = PCfg(base=base)
    # lengths: LEN, LEN:LEN2, LEN:, :LEN2
    def lens(v):
        if v is None:
            return None
        r = rng.random()
        if r < 0.4:
            return str(v)
        if r < 0.7:
            return "%d:%d" % (v, rng.choice([0, 3, 8, 20, 50]))
        if r < 0.85:
            return "%d:" % v
        return ":%d" % v
    p.min_len, p.max_len = lens(min_len), lens(max_len)
    if p.min_len is None:
        base.too_short_output = False
    if p.max_len is None:
        base.too_long_output = False
    plant2 = []
    nad2 = rng.choice([0, 0, 1, 1, 2]) if base.adapters or rng.random() < 0.5 else 0
    if f("adapters2", 0.0):
        nad2 = rng.choice([1, 2, 2, 3])
    if f("pair_adapters", 0.12) and base.adapters and not base.revcomp:
        p.pair_adapters = True
        base.times = 1
        nad2 = len(base.adapters)
        # linked adapters have no .spec problems but keep pair-adapters simple: single adapters only
    ads2 = []
    for i in range(nad2):
        flag, spec, seqs = S.adapter_spec_string(rng, allow_linked=(base.action != "crop" and not p.pair_adapters), idx=i)
        ads2.append((upper_flag(flag), spec.replace("ad%d=" % i, "bd%d=" % i)))
        plant2.append(seqs)
    p.adapters2 = tuple(ads2)
    if p.pair_adapters and any("..." in s for _, s in base.adapters):
        p.pair_adapters = False
    if f("cut", 0.25):
        p.cuts2 = (rng.choice([1, 3, -2, 30]),)
    if not base.fasta and f("qual", 0.25):
        p.qcut2 = rng.choice(["10", "0", "5,15", "25"])
    if f("length", 0.2):
        p.length2 = rng.choice([0, 5, 12, -4])
    if f("pairfilter", 0.4):
        p.pair_filter = rng.choice(MODES)
    if base.demux and not base.adapters:
        base.demux = False
    if f("combinatorial", 0.08) and base.adapters and p.adapters2 and not p.pair_adapters and not base.discard_trimmed and not base.untrimmed_output:
        p.combinatorial, base.demux = True, False
    if base.demux and base.discard_trimmed:
        base.discard_trimmed = False
    if f("onesided", 0.12) and not p.pair_adapters and not p.combinatorial:
        # adapters for one mate only + an untrimmed filter: the documented override to 'both'
        if not p.adapters2:
            flag, spec, seqs = S.adapter_spec_string(rng, allow_linked=False, idx=0)
            p.adapters2 = ((upper_flag(flag), spec.replace("ad0=", "bd0=")),)
            plant2.append(seqs)
        if rng.random() < 0.6:
            base.adapters, base.demux, base.revcomp = (), False, False
        else:
            p.adapters2 = ()
        if base.adapters or p.adapters2:
            if rng.random() < 0.5:
                base.discard_untrimmed, base.untrimmed_output = True, False
            else:
                base.untrimmed_output, base.discard_untrimmed = True, False
            base.discard_trimmed = False
    p.interleaved_in = rng.random() < 0.25
    p.interleaved_out = rng.random() < 0.2
    p.redirect_two = p.interleaved_out and rng.random() < 0.5
    n = rng.choice([1, 3, 6, 10]) if npairs is None else npairs
    pairs = []
    for i in range(n):
        a = S.make_read(rng, i, plant1 + (plant2 if base.revcomp else []), base.fasta)
        c = S.make_read(rng, i, plant2 + (plant1 if base.revcomp else []), base.fasta)
        name = a[0].split("/")[0]
        # mates carry the same id (R2 may have a different comment)
        cname = name if rng.random() < 0.7 or " " not in name else name.split()[0] + " 2:N:0:ACGT"
        if (base.info_file or base.side_files) and plant1 and rng.random() < 0.3:
            # R1 consists of one adapter only: trimmed to length zero, the pair must still reach the filters and the outputs
            s = rng.choice(rng.choice(plant1))
            a = (a[0], s, None if a[2] is None else "I" * len(s))
        pairs.append(((name, a[1], a[2]), (cname, c[1], c[2])))
    pairactions = f("pairactions", 0.0)
    stageorder = f("stageorder", 0.0)
    if (p.pair_adapters and rng.random() < 0.5) or ("crossranks" in focus and rng.random() < 0.3) or pairactions or stageorder:
        # several ranks of plain 3' adapters of different lengths, all planted in both mates (in random order): the ranks
        # compete, and the best rank for R1 alone need not be the best rank for R2 alone
        k = rng.choice([2, 2, 3])
        a1 = [U.rand_seq(rng, rng.choice([5, 6, 8, 10, 12]), "ACGT") for _ in range(k)]
        a2 = [U.rand_seq(rng, rng.choice([5, 6, 8, 10, 12]), "ACGT") for _ in range(k)]
        par1 = [""] * k
        if rng.random() < 0.25:
            # the same R1 adapter at two ranks with different tolerances (a lenient and a strict copy, in either order): the ranks are
            # still searched one by one, each with its own parameters
            a1[1] = a1[0]
            par1[0], par1[1] = rng.choice([(";e=0.2", ";e=0"), (";e=0", ";e=0.2"), (";e=0.25;o=4", ";e=0;o=4")])
        base.adapters = tuple(("-a", "ad%d=%s%s" % (i, s, par1[i])) for i, s in enumerate(a1))
        p.adapters2 = tuple(("-A", "bd%d=%s" % (i, s)) for i, s in enumerate(a2))
        p.pair_adapters, base.times, base.revcomp, p.combinatorial = True, 1, False, False
        base.error_rate, base.overlap = rng.choice([None, 0.0, 0.2]), rng.choice([None, 3, 4])
        if pairactions:
            # every action on a pair in which both mates carry the adapters (C03: retain and crop keep the documented interval)
            base.action = rng.choice(S.ACTIONS)
        if rng.random() < (0.3 if pairactions else 0.7):
            act = base.action
            # nothing but the adapters touches the reads: the rank that trimmed each mate can be read off the output
            base.cuts, base.qcut, base.nextseq, base.length, base.trim_n, base.poly_a, base.action = (), None, None, None, False, False, "trim"
            p.cuts2, p.qcut2, p.length2 = (), None, None
            if pairactions:
                base.action = act
        new = []
        for (n1, s1, q1), (n2, s2, q2) in pairs:
            def stack(ads):
                order = list(range(k))
                rng.shuffle(order)
                order = order[: rng.choice([1, 2, k])]
                ins = U.rand_seq(rng, rng.choice([0, 4, 10]), "ACGT")
                if rng.random() < 0.3:
                    ins = ins.lower()   # soft-masked insert: --action=lowercase must upper-case what it keeps
                return ins + "".join(ads[j] if rng.random() < 0.8 else U.mutate(rng, ads[j], 1, "ACGT") for j in order)
            t1, t2 = stack(a1), stack(a2)
            if par1[0] and rng.random() < 0.4:
                # R1 carries a damaged copy that only the lenient rank accepts, R2 carries the R2 adapter of the strict rank (or of the
                # lenient one): the pair is trimmed only if one rank, searched with its own parameters, matches both mates
                strict = 1 if "e=0;" in par1[1] + ";" or par1[1].endswith("e=0") else 0
                t1 = U.rand_seq(rng, rng.choice([4, 10]), "ACGT") + U.mutate(rng, a1[0], 1, "ACGT")
                t2 = U.rand_seq(rng, rng.choice([4, 10]), "ACGT") + a2[strict if rng.random() < 0.7 else 1 - strict]
            new.append(((n1.split()[0], t1, None if q1 is None else "I" * len(t1)), (n2.split()[0], t2, None if q2 is None else "I" * len(t2))))
        pairs = new
    if stageorder:
        # a step before the adapters that touches one mate only, the adapters as a step on the pair, and a step after the adapters
        # that touches the other mate only: every step stays at its documented place
        if base.fasta or rng.random() < 0.6:
            early = ("cut", (rng.choice([1, 2, 3]),))
        else:
            early = ("qual", rng.choice(["10", "5,15", "25"]))
        base.cuts, p.cuts2, base.qcut, p.qcut2, base.length, p.length2 = (), (), None, None, None, None
        late = rng.choice([3, 5, 8, 12])
        if rng.random() < 0.7:
            # nothing after the shortening step looks at lengths: the run can be compared with the one without -l/-L
            base.max_n, base.length_tag, base.trim_n, base.casava = None, None, False, False
            p.min_len = p.max_len = None
            base.too_short_output = base.too_long_output = False
        if rng.random() < 0.5:
            if early[0] == "cut":
                base.cuts = early[1]
            else:
                base.qcut, p.qcut2 = early[1], "0"
            p.length2 = late
        else:
            if early[0] == "cut":
                p.cuts2 = early[1]
            else:
                base.qcut, p.qcut2 = "0", early[1]
            base.length = late
    return p, pairs


def correspond(ctx, cases, component, rng_argv=None):
    from . import core

    results, lines, idx = [], [], []
    with S.Scratch() as d:
        for pcfg, pairs in cases:
            try:
                o1, o2 = adapter_objects2(pcfg)
            except Exception as e:  # noqa
                results.append({"cfg": pcfg, "pairs": pairs, "skip": "adapter construction failed: %s" % e})
                continue
            raw = run_impl(pcfg, pairs, d, rng_argv)
            ent = {"cfg": pcfg, "pairs": pairs, "objs1": o1, "objs2": o2, "impl": raw}
            results.append(ent)
            if raw["exit"] == 0 and raw["report"] is not None:
                ent["impl_c"] = canon_impl(raw)
            lines.append(model_line(pcfg, o1, o2, pairs))
            idx.append(len(results) - 1)
    model_ok = not any("extraction" in b for b in ctx.broken)
    outs = core.model_run(lines) if (lines and model_ok) else []
    ndiff = 0
    for i, o in zip(idx, outs):
        ent = results[i]
        ent["model"] = parse_model(o, ent["objs1"], ent["objs2"], ent["cfg"])
        if "impl_c" in ent and "error" not in ent["model"]:
            ent["diffs"] = compare(ent["model"], ent["impl_c"])
        elif "error" in ent["model"]:
            ent["diffs"] = ["model error: " + ent["model"]["error"]]
        else:
            ent["diffs"] = ["implementation exit %s %s" % (ent["impl"]["exit"], ent["impl"]["error"])]
        if ent["diffs"]:
            ndiff += 1
    ctx.notes.setdefault("correspondence", {})[component] = {"cases": len(outs), "disagreements": ndiff}
    return results
