import argparse
import importlib
import json
import os
import sys
import traceback

from . import core, buildimpl


def main():
    ap = argparse.ArgumentParser()
    ap.add_argument("prop")
    ap.add_argument("rest", nargs="*")
    ap.add_argument("--tier", default=os.environ.get("VERIF_TIER") or "quick")
    ap.add_argument("--seed", type=int, default=None)
    a = ap.parse_args()
    seed = a.seed
    if seed is None:
        try:
            seed = int(os.environ.get("VERIF_SEED", "1"))
        except ValueError:
            seed = 1
    tier = a.tier if a.tier in ("quick", "thorough") else "quick"
    if a.prop == "replay":
        doc = json.load(open(a.rest[0]))
        pid = doc["property"]
        mod = importlib.import_module("harness.props." + pid.lower())
        buildimpl.activate()
        sys.exit(mod.replay(doc))
    if a.prop == "setup":
        sys.exit(setup())
    pid = a.prop.upper()
    ctx = core.Ctx(pid, tier, seed)
    try:
        mod = importlib.import_module("harness.props." + pid.lower())
        mod.check(ctx)
    except Exception as e:
        traceback.print_exc()
        ctx.broken.append("check crashed: %s: %s" % (type(e).__name__, e))
    rc = ctx.finish()
    buildimpl.cleanup()
    sys.exit(rc)


def setup():
    """MANIFEST.setup_cmd: build everything from files on disk."""
    changed, errs = core.regenerate()
    if errs:
        print("translator errors:", errs)
        return 1
    ok, log = core.coq_make(None)
    if not ok:
        print(log[-5000:])
        return 1
    ok, log = core.build_model()
    if not ok:
        print(log[-5000:])
        return 1
    buildimpl.build()
    buildimpl.cleanup()
    print("setup ok")
    return 0


if __name__ == "__main__":
    main()
