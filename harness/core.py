"""Common machinery of every check: Coq build + assumption audit, extraction
and model runner, evidence writer, violation protocol, known findings."""
import fcntl
import hashlib
import json
import os
import random
import re
import shutil
import subprocess
import sys
import time

VERIF = os.path.dirname(os.path.dirname(os.path.abspath(__file__)))
COQ = os.path.join(VERIF, "coq")
BUILD = os.path.join(VERIF, "build")
EXTR = os.path.join(BUILD, "extracted")
MODELRUN = os.path.join(BUILD, "modelrun")
REPO = os.environ.get("VERIF_REPO", "/repo")

sys.path.insert(0, VERIF)

FORBIDDEN = re.compile(
    r"\b(Admitted|admit|Axiom|Axioms|Parameter|Parameters|Conjecture|Hypothesis|Variable|Variables|Hypotheses)\b"
    r"|Unset\s+Guard|bypass_check|Admit\s+Obligations|type-in-type|impredicative-set|Unset\s+Universe|Unset\s+Positivity"
)

TRUSTED_BASE_COMMON = [
    "Coq 8.16.1 kernel (coqc); vm_compute is used for finite-domain lemmas and for evaluating the model in generated cases; native_compute is not used",
    "the development declares no axioms (audit: grep over coq/ on every run; Print Assumptions under every property theorem, copied below)",
    "extraction: Require Extraction + ExtrOcamlBasic only (Extract Inductive for bool, option, unit, list, prod, sumbool, sumor; no Extract Constant); OCaml 4.13.1 ocamlopt and coq/Extract/driver.ml",
    "correspondence harness (generators, canonicalisers, implementation drivers under /verif/harness) and the Cython/C/CPython toolchain that rebuilds /repo's working tree",
]


class Lock:
    def __init__(self, name):
        os.makedirs(BUILD, exist_ok=True)
        self.path = os.path.join(BUILD, name + ".lock")

    def __enter__(self):
        self.f = open(self.path, "w")
        fcntl.flock(self.f, fcntl.LOCK_EX)
        return self

    def __exit__(self, *a):
        fcntl.flock(self.f, fcntl.LOCK_UN)
        self.f.close()


def sh(cmd, cwd=None, timeout=1800, env=None, input=None):
    p = subprocess.run(
        cmd, cwd=cwd, stdout=subprocess.PIPE, stderr=subprocess.STDOUT, text=True, timeout=timeout, env=env, input=input
    )
    return p.returncode, p.stdout


# --------------------------------------------------------------------------
# Coq side
# --------------------------------------------------------------------------

def regenerate():
    """Run every translator; returns (changed_files, errors)"""
    from translate import ALL

    changed, errors = [], []
    for name, fn in ALL:
        try:
            if fn():
                changed.append(name)
        except Exception as e:  # fail closed: reported as a broken obligation
            errors.append("%s: %s: %s" % (name, type(e).__name__, e))
    return changed, errors


def ensure_makefile():
    mk = os.path.join(COQ, "Makefile")
    cp = os.path.join(COQ, "_CoqProject")
    if not os.path.exists(mk) or os.path.getmtime(mk) < os.path.getmtime(cp):
        rc, out = sh(["coq_makefile", "-f", "_CoqProject", "-o", "Makefile"], cwd=COQ)
        if rc != 0:
            raise RuntimeError("coq_makefile failed:\n" + out)


def coq_make(targets=None, jobs=16, timeout=3000):
    """Full .vo build (never -vos) of the given targets (default: all)."""
    with Lock("coq"):
        ensure_makefile()
        cmd = ["make", "-j%d" % jobs] + (targets or [])
        try:
            rc, out = sh(cmd, cwd=COQ, timeout=timeout)
        except subprocess.TimeoutExpired:
            return False, "TIMEOUT of make " + " ".join(targets or [])
        return rc == 0, out


def audit_sources():
    """No Admitted/admit/Axiom/Parameter/... anywhere in the development
    (Section variables are allowed only in Model/*.v files listed in SECTION_VARS_OK
    and are closed by the end of their section: checked by Print Assumptions)."""
    bad = []
    for root, _, files in os.walk(COQ):
        for f in files:
            if not f.endswith(".v"):
                continue
            p = os.path.join(root, f)
            text = open(p, encoding="utf-8").read()
            text_nc = strip_comments(text)
            for m in FORBIDDEN.finditer(text_nc):
                w = m.group(0)
                if w in ("Variable", "Variables", "Hypothesis", "Hypotheses"):
                    if inside_section(text_nc, m.start()):
                        continue
                bad.append("%s: %s" % (os.path.relpath(p, COQ), w))
    return bad


def strip_comments(text):
    out = []
    depth = 0
    i = 0
    while i < len(text):
        if text.startswith("(*", i):
            depth += 1
            i += 2
        elif text.startswith("*)", i) and depth > 0:
            depth -= 1
            i += 2
        else:
            if depth == 0:
                out.append(text[i])
            i += 1
    return "".join(out)


def inside_section(text, pos):
    opened = len(re.findall(r"^\s*Section\s+\w+\s*\.", text[:pos], re.M))
    closed = 0
    for m in re.finditer(r"^\s*End\s+(\w+)\s*\.", text[:pos], re.M):
        # only count Ends that close Sections (not Modules)
        if re.search(r"^\s*Section\s+%s\s*\." % re.escape(m.group(1)), text[: m.start()], re.M):
            closed += 1
    return opened > closed


def property_file_report(pid):
    """Compile Properties/<pid>.v afresh (its dependencies must be built) and parse
    theorem names + Print Assumptions output."""
    vfile = os.path.join(COQ, "Properties", pid + ".v")
    text = strip_comments(open(vfile, encoding="utf-8").read())
    theorems = re.findall(r"^\s*Theorem\s+(\w+)", text, re.M)
    examples = re.findall(r"^\s*Example\s+(\w+)", text, re.M)
    # hygiene: every proof in a property file is `exact <lemma>` (Examples may compute)
    proofs = re.findall(r"Theorem\s+(\w+).*?Proof\.(.*?)Qed\.", text, re.S)
    unhygienic = [n for n, body in proofs if not re.fullmatch(r"\s*exact\s+[^.]+(\.[A-Za-z_][\w']*)*\s*\.\s*", body)]
    out_dir = "/var/tmp/verif-pa-%d" % os.getpid()
    os.makedirs(out_dir, exist_ok=True)
    out_vo = os.path.join(out_dir, pid + ".vo")
    try:
        rc, out = sh(
            ["coqc", "-Q", ".", "CV", "-w", "-notation-overridden", "Properties/%s.v" % pid, "-o", out_vo],
            cwd=COQ,
            timeout=1200,
        )
    except subprocess.TimeoutExpired:
        rc, out = 1, "TIMEOUT"
    shutil.rmtree(out_dir, ignore_errors=True)
    blocks = []
    cur = None
    for line in out.splitlines():
        if line.startswith("Closed under the global context"):
            blocks.append([])
            cur = None
        elif line.startswith("Axioms:"):
            cur = []
            blocks.append(cur)
        elif cur is not None and line.strip():
            cur.append(line.rstrip())
    axioms = {}
    for name, blk in zip(re.findall(r"Print\s+Assumptions\s+(\w+)", text), blocks):
        ax = []
        for l in blk:
            m = re.match(r"^(\S+)\s*:", l)
            if m:
                ax.append(m.group(1))
        axioms[name] = ax
    return {
        "ok": rc == 0,
        "log": out if rc != 0 else "",
        "theorems": theorems,
        "examples": examples,
        "assumptions": axioms,
        "unhygienic": unhygienic,
    }


def build_model():
    """Extract the model and compile the OCaml driver when stale."""
    with Lock("extract"):
        os.makedirs(EXTR, exist_ok=True)
        srcs = [os.path.join(COQ, "Extract", "Extract.v"), os.path.join(COQ, "Extract", "driver.ml")]
        deps = []
        for sub in ("Model", "Generated"):
            d = os.path.join(COQ, sub)
            deps += [os.path.join(d, f) for f in os.listdir(d) if f.endswith(".vo")]
        newest = max(os.path.getmtime(p) for p in srcs + deps)
        if os.path.exists(MODELRUN) and os.path.getmtime(MODELRUN) >= newest:
            return True, ""
        rc, out = sh(
            ["coqc", "-Q", COQ, "CV", os.path.join(COQ, "Extract", "Extract.v"), "-o", os.path.join(EXTR, "Extract.vo")],
            cwd=EXTR,
            timeout=900,
        )
        if rc != 0:
            return False, out
        shutil.copy(os.path.join(COQ, "Extract", "driver.ml"), os.path.join(EXTR, "driver.ml"))
        rc, out2 = sh(
            ["ocamlfind", "ocamlopt", "-w", "-a", "model.mli", "model.ml", "driver.ml", "-o", MODELRUN + ".new"],
            cwd=EXTR,
            timeout=900,
        )
        if rc != 0:
            return False, out + out2
        os.replace(MODELRUN + ".new", MODELRUN)
        return True, out + out2


def model_run(lines, jobs=8, timeout=3000):
    """Feed case lines to the extracted model; returns list of output lines."""
    if not lines:
        return []
    n = len(lines)
    jobs = max(1, min(jobs, n // 2000 + 1))
    chunks = [lines[i * n // jobs:(i + 1) * n // jobs] for i in range(jobs)]
    procs = []
    for ch in chunks:
        p = subprocess.Popen([MODELRUN], stdin=subprocess.PIPE, stdout=subprocess.PIPE, text=True)
        procs.append((p, ch))
    outs = []
    import threading

    results = [None] * len(procs)

    def work(i, p, ch):
        o, _ = p.communicate("\n".join(ch) + "\n", timeout=timeout)
        results[i] = o.split("\n")[:-1] if o.endswith("\n") else o.split("\n")

    ths = [threading.Thread(target=work, args=(i, p, ch)) for i, (p, ch) in enumerate(procs)]
    for t in ths:
        t.start()
    for t in ths:
        t.join()
    for i, (p, ch) in enumerate(procs):
        r = results[i] or []
        if len(r) != len(ch):
            raise RuntimeError("model driver returned %d lines for %d cases (exit %s)" % (len(r), len(ch), p.returncode))
        outs += r
    return outs


def coq_eval(prelude, terms, timeout=900):
    """Evaluate closed terms inside Coq by vm_compute (cross-check of extraction,
    and the only way PrimFloat parts of the model are run).  Returns list of
    printed values (strings, whitespace-normalised)."""
    d = "/var/tmp/verif-eval-%d" % os.getpid()
    os.makedirs(d, exist_ok=True)
    try:
        src = [prelude]
        for t in terms:
            src.append('Eval vm_compute in (%s).' % t)
        p = os.path.join(d, "cases.v")
        with open(p, "w") as f:
            f.write("\n".join(src) + "\n")
        rc, out = sh(["coqc", "-Q", COQ, "CV", "-w", "-notation-overridden", p], cwd=d, timeout=timeout)
        if rc != 0:
            raise RuntimeError("coqc on generated cases failed:\n" + out[-3000:])
        vals = []
        for blk in re.split(r"^\s*= ", out, flags=re.M)[1:]:
            # value ends at the last "\n     : type"
            m = re.search(r"\n\s+: ", blk)
            v = blk[: m.start()] if m else blk
            vals.append(" ".join(v.split()))
        if len(vals) != len(terms):
            raise RuntimeError("expected %d values from coqc, got %d" % (len(terms), len(vals)))
        return vals
    finally:
        shutil.rmtree(d, ignore_errors=True)


# --------------------------------------------------------------------------
# Check context: evidence, violations, known findings
# --------------------------------------------------------------------------

def load_known():
    p = os.path.join(VERIF, "known_findings.json")
    if not os.path.exists(p):
        return {"findings": [], "fixed": []}
    return json.load(open(p))


class Ctx:
    def __init__(self, pid, tier, seed):
        self.pid = pid
        self.tier = tier
        self.seed = seed
        self.rng = random.Random(seed * 1000003 + int(pid[1:]))
        self.t0 = time.time()
        self.coverage = {
            "evaluations": 0,
            "distinct_nontrivial": 0,
            "rule": "",
            "samples": [],
            "obligations": 0,
            "discharged": 0,
            "checker_cmd": "",
            "trusted_base": list(TRUSTED_BASE_COMMON),
        }
        self.assumptions = []
        self.violations = []  # (signature, replay dict, found_input)
        self.known_hits = []
        self.broken = []  # names of obligations / correspondence components that no longer check
        self.notes = {}
        self._distinct = set()
        self.known = load_known()

    @property
    def quick(self):
        return self.tier == "quick"

    def size(self, quick, thorough):
        return quick if self.quick else thorough

    # ---- proof side
    def coq(self, extra_targets=()):
        pid = self.pid
        t = time.time()
        changed, terrors = regenerate()
        self.notes["generated_changed"] = changed
        for e in terrors:
            self.broken.append("translator: " + e)
        bad = audit_sources()
        if bad:
            self.broken.append("audit: forbidden vernacular: " + "; ".join(bad[:10]))
        targets = ["Properties/%s.vo" % pid] + list(extra_targets)
        ok, log = coq_make(targets)
        self.coverage["checker_cmd"] = (
            "cd /verif/coq && coq_makefile -f _CoqProject -o Makefile && make %s (full .vo build, Coq 8.16.1) "
            "&& coqc -Q . CV Properties/%s.v  [Print Assumptions under every theorem]" % (" ".join(targets), pid)
        )
        if not ok:
            m = re.findall(r'File "\./([^"]+)", line (\d+)', log)
            where = "%s:%s" % m[-1] if m else "?"
            self.broken.append("coq build failed at %s" % where)
            self.notes["coq_log_tail"] = log[-2500:]
        rep = property_file_report(pid) if ok else None
        if rep is not None:
            self.coverage["obligations"] = len(rep["theorems"])
            discharged = [n for n in rep["theorems"] if n in rep["assumptions"]]
            self.coverage["discharged"] = len(discharged) if rep["ok"] else 0
            self.coverage["theorems"] = rep["theorems"]
            self.coverage["examples"] = rep["examples"]
            ax = sorted({a for v in rep["assumptions"].values() for a in v})
            self.coverage["axioms_reported_by_Print_Assumptions"] = ax
            self.coverage["assumptions_per_theorem"] = {k: (v or "Closed under the global context") for k, v in rep["assumptions"].items()}
            if not rep["ok"]:
                self.broken.append("Properties/%s.v does not compile" % pid)
                self.notes["coq_log_tail"] = rep["log"][-2500:]
            missing = [n for n in rep["theorems"] if n not in rep["assumptions"]]
            if missing:
                self.broken.append("no Print Assumptions output for: " + ",".join(missing))
            if rep["unhygienic"]:
                self.broken.append("property theorems not closed by `exact`: " + ",".join(rep["unhygienic"]))
        else:
            text = strip_comments(open(os.path.join(COQ, "Properties", pid + ".v")).read())
            self.coverage["obligations"] = len(re.findall(r"^\s*Theorem\s+(\w+)", text, re.M))
            self.coverage["discharged"] = 0
        self.notes["coq_s"] = round(time.time() - t, 1)
        return not self.broken

    def model(self):
        ok, log = build_model()
        if not ok:
            self.broken.append("extraction/ocaml build failed")
            self.notes["extract_log_tail"] = log[-2500:]
        return ok

    # ---- coverage bookkeeping
    def count(self, case_key, nontrivial):
        self.coverage["evaluations"] += 1
        if nontrivial:
            h = hashlib.blake2b(repr(case_key).encode(), digest_size=8).digest()
            self._distinct.add(h)

    def sample(self, s, limit=6):
        if len(self.coverage["samples"]) < limit:
            self.coverage["samples"].append(s)

    # ---- violations
    def violation(self, signature, replay, found_input=True):
        """signature: short stable string identifying *what* fails (used to match known findings)"""
        for k in self.known.get("findings", []):
            if k["property"] == self.pid and re.search(k["signature_regex"], signature):
                if k["id"] not in [x[0] for x in self.known_hits]:
                    self.known_hits.append((k["id"], k["what"], replay))
                return "known"
        if len(self.violations) < 50:
            self.violations.append((signature, replay, found_input))
        return "new"

    def finish(self):
        self.coverage["distinct_nontrivial"] = len(self._distinct)
        wall = time.time() - self.t0
        exit_code = 0
        os.makedirs(os.path.join(VERIF, "replays"), exist_ok=True)
        lines = []
        for kid, what, replay in self.known_hits:
            lines.append("KNOWN-FINDING: property=%s %s" % (self.pid, what))
        with_input = [v for v in self.violations if v[2]]
        if with_input:
            sig, replay, _ = with_input[0]
            path = self._write_replay(sig, replay, others=[v[0] for v in with_input[1:]])
            lines.append("VIOLATION property=%s replay=%s" % (self.pid, path))
            exit_code = 1
        elif self.broken or self.violations:
            names = list(self.broken) + [v[0] for v in self.violations]
            replay = {
                "property": self.pid,
                "kind": "obligation-or-correspondence-broken",
                "no_longer_checks": names,
                "first_disagreement": self.violations[0][1] if self.violations else None,
                "notes": self.notes,
                "searched": self.coverage.get("search_note", "oracle run on every generated case of this run and on the corpus; none failed"),
            }
            path = self._write_replay("broken", replay)
            lines.append("VIOLATION property=%s replay=%s no-failing-input-found" % (self.pid, path))
            exit_code = 1
        ev = {
            "property_id": self.pid,
            "tier": self.tier,
            "seed": self.seed,
            "level": "proof",
            "coverage": self.coverage,
            "assumptions": self.assumptions,
            "wall_s": round(wall, 2),
            "violations": len(with_input) + (1 if (exit_code and not with_input) else 0),
        }
        ev["coverage"]["notes"] = self.notes
        ev["coverage"]["known_findings_reproduced"] = [k[0] for k in self.known_hits]
        if not ev["coverage"]["samples"]:
            ev["coverage"]["samples"] = ["(no case generated: proof obligations only)"]
        os.makedirs(os.path.join(VERIF, "evidence"), exist_ok=True)
        with open(os.path.join(VERIF, "evidence", self.pid + ".json"), "w") as f:
            json.dump(ev, f, indent=1, sort_keys=True, default=str)
            f.write("\n")
        for l in lines:
            print(l)
        print(
            "%s tier=%s seed=%d obligations=%d discharged=%d evaluations=%d distinct_nontrivial=%d wall=%.1fs exit=%d"
            % (
                self.pid,
                self.tier,
                self.seed,
                self.coverage["obligations"],
                self.coverage["discharged"],
                self.coverage["evaluations"],
                self.coverage["distinct_nontrivial"],
                wall,
                exit_code,
            )
        )
        sys.stdout.flush()
        return exit_code

    def _write_replay(self, sig, replay, others=()):
        h = hashlib.sha1((sig + json.dumps(replay, sort_keys=True, default=str)).encode()).hexdigest()[:10]
        path = os.path.join(VERIF, "replays", "%s-%s.json" % (self.pid, h))
        doc = {"property": self.pid, "signature": sig, "tier": self.tier, "seed": self.seed, "replay": replay}
        if others:
            doc["further_violation_signatures"] = list(others)[:20]
        with open(path, "w") as f:
            json.dump(doc, f, indent=1, sort_keys=True, default=str)
            f.write("\n")
        return path


def diff_cases(ctx, component, cases, impl_out, model_out, describe):
    """Record disagreements between implementation and model.
    describe(case) -> json-able description.  Returns list of indices that differ."""
    bad = [i for i in range(len(cases)) if impl_out[i] != model_out[i]]
    ctx.notes.setdefault("correspondence", {})[component] = {"cases": len(cases), "disagreements": len(bad)}
    return bad
