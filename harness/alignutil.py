"""Shared by C01/C02/C07/C09: adapter/read generators, implementation drivers,
model line encoders, and the brute-force oracles (property text, direct)."""
import functools

TYPES = ["Front", "RightmostFront", "Back", "Anywhere", "NonInternalFront", "NonInternalBack", "Prefix", "Suffix"]
CLASSNAME = {
    "Front": "FrontAdapter", "RightmostFront": "RightmostFrontAdapter", "Back": "BackAdapter", "Anywhere": "AnywhereAdapter",
    "NonInternalFront": "NonInternalFrontAdapter", "NonInternalBack": "NonInternalBackAdapter", "Prefix": "PrefixAdapter",
    "Suffix": "SuffixAdapter",
}
# effective aligner flags per type (without force_anywhere): used by the ORACLE only (documented placement rule)
# bit0 adapter start may be skipped, bit1 read start may be skipped, bit2 adapter end may be skipped, bit3 read end may be skipped
DOC_FLAGS = {"Front": 11, "RightmostFront": 11, "Back": 14, "Anywhere": 15, "NonInternalFront": 9, "NonInternalBack": 6, "Prefix": 8, "Suffix": 2}

RATES = [0.0, 0.1, 0.15, 0.2, 0.25, 0.3, 0.34, 0.4, 0.5, 0.7, 0.9]


def stable_hash(x):
    import zlib

    return zlib.crc32(repr(x).encode())


def enc(s):
    return " ".join(str(ord(c)) for c in s)


class AdSpec:
    """A structured adapter configuration (what the CLI would build)."""

    __slots__ = ("typ", "seq", "rate", "min_overlap", "read_wildcards", "adapter_wildcards", "indels", "force_anywhere")

    def __init__(self, typ, seq, rate, min_overlap, read_wildcards=False, adapter_wildcards=True, indels=True, force_anywhere=False):
        self.typ, self.seq, self.rate, self.min_overlap = typ, seq, rate, min_overlap
        self.read_wildcards, self.adapter_wildcards, self.indels, self.force_anywhere = read_wildcards, adapter_wildcards, indels, force_anywhere

    def key(self):
        return (self.typ, self.seq, self.rate, self.min_overlap, self.read_wildcards, self.adapter_wildcards, self.indels, self.force_anywhere)

    def to_json(self):
        return dict(zip(self.__slots__, self.key()))

    @staticmethod
    def from_json(d):
        return AdSpec(**d)

    # ---- what SingleAdapter.__init__ derives (recomputed here from the real object, see build())
    def build(self, mock_prefilter=False):
        import cutadapt.adapters as A

        cls = getattr(A, CLASSNAME[self.typ])
        kw = dict(max_errors=self.rate, min_overlap=self.min_overlap, read_wildcards=self.read_wildcards,
                  adapter_wildcards=self.adapter_wildcards, indels=self.indels, name="a")
        if self.typ in ("Front", "RightmostFront", "Back") and self.force_anywhere:
            kw["force_anywhere"] = True
        ad = cls(self.seq, **kw)
        if mock_prefilter:
            ad.kmer_finder = A.MockKmerFinder()
        return ad


def thr_table(rate, m):
    """thr[L] = int(L * rate), the very double product the code computes"""
    tab = [int(L * rate) for L in range(m + 1)]
    # hypothesis of C01_errors_achieved / C01_threshold_tables: non-negative and non-decreasing
    assert all(x >= 0 for x in tab) and all(a <= b for a, b in zip(tab, tab[1:])), ("threshold table not monotone", rate, m)
    if rate < 1:
        # hypotheses of C07_no_change (Proofs/KmerOverlap.v): thr 0 = 0, steps of at most one, thr i < i
        assert tab[0] == 0 and all(b - a <= 1 for a, b in zip(tab, tab[1:])) and all(tab[i] < i for i in range(1, m + 1)), \
            ("threshold table violates the hypotheses of C07_no_change", rate, m)
    return tab


def model_line_matchto(ad_obj, spec, read):
    """encode for `modelrun matchto`; derived fields are read off the real adapter object
    (sequence normalisation, effective wildcard switch, min_overlap) -- these derivations are C18's business"""
    seq = ad_obj.sequence
    m = len(seq)
    return "matchto %d|%s|%d %d %d %d|%d|%s|%s" % (
        TYPES.index(spec.typ), enc(seq), int(ad_obj.adapter_wildcards), int(ad_obj.read_wildcards), int(ad_obj.indels),
        int(bool(spec.force_anywhere) and spec.typ in ("Front", "RightmostFront", "Back")), ad_obj.min_overlap,
        " ".join(str(x) for x in thr_table(ad_obj.max_error_rate, m)), enc(read))


def match_tuple(mt):
    if mt is None:
        return "None"
    import cutadapt.adapters as A

    side = 0 if isinstance(mt, A.RemoveBeforeMatch) else 1
    return "%d %d %d %d %d %d %d" % (mt.astart, mt.astop, mt.rstart, mt.rstop, mt.score, mt.errors, side)


# ------------------------------------------------------------------ oracle pieces (property text)
@functools.lru_cache(maxsize=None)
def _tables():
    """the documented character rules, written down here independently of cutadapt._match_tables (an oracle that took them from the
    implementation would follow it into its mistakes): A, C, G, T and U = T in either case; the IUPAC codes in either case, N
    matching everything (also characters that are no nucleotide), X matching nothing; without wildcards, equality after upper-casing"""
    acgt = [0x80] * 256
    for c, v in dict(A=1, C=2, G=4, T=8, U=8).items():
        acgt[ord(c)] = acgt[ord(c.lower())] = v
    codes = dict(X="", A="A", C="C", G="G", T="T", U="T", R="AG", Y="CT", S="GC", W="AT", K="GT", M="AC", B="CGT", D="AGT", H="ACT", V="ACG", N="ACGT")
    bit = dict(A=1, C=2, G=4, T=8)
    iupac = [0] * 256
    for c, members in codes.items():
        v = sum(bit[x] for x in members) | (0x80 if c == "N" else 0)
        iupac[ord(c)] = iupac[ord(c.lower())] = v
    upper = [ord(chr(i).upper()) if i < 128 and len(chr(i).upper()) == 1 else i for i in range(256)]
    return bytes(acgt), bytes(iupac), bytes(upper)


def char_eq(wref, wq):
    """documented wildcard rule as a predicate on (adapter char, read char)"""
    acgt, iupac, upper = _tables()
    if not wref and not wq:
        return lambda a, r: upper[ord(a)] == upper[ord(r)]
    ta = iupac if wref else acgt
    tr = iupac if wq else acgt
    return lambda a, r: (ta[ord(a)] & tr[ord(r)]) != 0


def edit_distance(a, b, eq):
    prev = list(range(len(b) + 1))
    for i in range(1, len(a) + 1):
        cur = [i] + [0] * len(b)
        for j in range(1, len(b) + 1):
            cur[j] = min(prev[j - 1] + (0 if eq(a[i - 1], b[j - 1]) else 1), prev[j] + 1, cur[j - 1] + 1)
        prev = cur
    return prev[len(b)]


def hamming(a, b, eq):
    if len(a) != len(b):
        return None
    return sum(0 if eq(x, y) else 1 for x, y in zip(a, b))


def non_n(s, wref):
    return len(s) - (s.count("N") if wref else 0)


def placement_ok(flags, m, n, a0, a1, r0, r1):
    sir, siq, stir, stiq = flags & 1, flags & 2, flags & 4, flags & 8
    if not sir and a0 != 0:
        return False
    if not siq and r0 != 0:
        return False
    if a0 != 0 and r0 != 0:
        return False
    if not stir and a1 != m:
        return False
    if not stiq and r1 != n:
        return False
    if a1 != m and r1 != n:
        return False
    return True


def doc_flags(spec):
    if spec.force_anywhere and spec.typ in ("Front", "RightmostFront", "Back"):
        return 15
    return DOC_FLAGS[spec.typ]


def oracle_sound(spec, ad_obj, read, mt):
    """C01 on one reported match.  Returns None or a description of what is wrong."""
    if mt is None:
        return None
    seq = ad_obj.sequence
    m, n = len(seq), len(read)
    a0, a1, r0, r1 = mt.astart, mt.astop, mt.rstart, mt.rstop
    if not (0 <= a0 <= a1 <= m and 0 <= r0 <= r1 <= n):
        return "coordinates outside adapter/read"
    fl = doc_flags(spec)
    if spec.typ == "RightmostFront":
        # documented as a 5' adapter: same placement rule as Front
        pass
    if not placement_ok(fl, m, n, a0, a1, r0, r1):
        return "placement rule of %s violated" % spec.typ
    if a1 - a0 < ad_obj.min_overlap:
        return "overlap %d below minimum %d" % (a1 - a0, ad_obj.min_overlap)
    eq = char_eq(ad_obj.adapter_wildcards, ad_obj.read_wildcards)
    if ad_obj.indels:
        d = edit_distance(seq[a0:a1], read[r0:r1], eq)
    else:
        d = hamming(seq[a0:a1], read[r0:r1], eq)
        if d is None:
            return "indels disabled but interval lengths differ"
    if d != mt.errors:
        return "reported errors %d but distance of the intervals is %d" % (mt.errors, d)
    bound = int(ad_obj.max_error_rate * non_n(seq[a0:a1], ad_obj.adapter_wildcards))
    if mt.errors > bound:
        return "errors %d exceed int(rate*nonN)=%d" % (mt.errors, bound)
    return None


# ------------------------------------------------------------------ generators
ALPHAS = ["AC", "ACGT", "ACGT", "ACGTN", "ACN", "ACGTNRYacgtnX", "ACGTacgt"]


def rand_seq(rng, n, alpha):
    return "".join(rng.choice(alpha) for _ in range(n))


def mutate(rng, s, nedits, alpha, kinds="sid"):
    s = list(s)
    for _ in range(nedits):
        k = rng.choice(kinds)
        if k == "s" and s:
            s[rng.randrange(len(s))] = rng.choice(alpha)
        elif k == "i":
            s.insert(rng.randrange(len(s) + 1), rng.choice(alpha))
        elif k == "d" and s:
            del s[rng.randrange(len(s))]
    return "".join(s)


def rand_spec(rng, types=TYPES, maxlen=12):
    typ = rng.choice(types)
    m = rng.choice([1, 2, 3, 4, 5, 6, 7, 8, 9, 10, 12, maxlen])
    m = min(m, maxlen)
    alpha = rng.choice(["AC", "ACGT", "ACGT", "ACGTN", "ACGN", "ACGTNRYWSKMBDHV", "ACGTX"])
    seq = rand_seq(rng, m, alpha)
    if set(seq) <= set("N"):
        seq = "A" + seq[1:]
    rate = rng.choice(RATES)
    return AdSpec(
        typ, seq, rate, rng.randint(1, max(1, m)) if rng.random() < 0.9 else m + rng.choice([1, 2, 5, 30]),   # larger than the adapter: capped
        read_wildcards=rng.random() < 0.25,
        adapter_wildcards=rng.random() < 0.8,
        indels=rng.random() < 0.6,
        force_anywhere=rng.random() < 0.1,
    )


def rand_read(rng, spec, seq, maxn=22):
    """reads with planted (possibly edited, possibly partial) copies of the adapter"""
    alpha = rng.choice(ALPHAS)
    mode = rng.random()
    m = len(seq)
    if mode < 0.15:
        return rand_seq(rng, rng.randint(0, maxn), alpha)
    core = seq
    if mode < 0.45:  # partial occurrence at an end
        cut = rng.randint(0, m)
        core = seq[cut:] if rng.random() < 0.5 else seq[: m - cut]
    k = rng.choice([0, 0, 1, 1, 2, 3])
    core = mutate(rng, core, k, alpha, "sid" if spec.indels or rng.random() < 0.2 else "s")
    left = rand_seq(rng, rng.choice([0, 0, 1, 2, 3, 5, 9]), alpha)
    right = rand_seq(rng, rng.choice([0, 0, 1, 2, 3, 5, 9]), alpha)
    place = rng.random()
    if place < 0.3:
        left = ""
    elif place < 0.6:
        right = ""
    r = left + core + right
    if rng.random() < 0.15:  # second copy
        r = r + rand_seq(rng, rng.randint(0, 3), alpha) + seq
    if rng.random() < 0.1:
        r = r.lower()
    return r[: maxn + 8]
