"""Writes /verif/MANIFEST.json from the table below (so that it is always valid JSON
matching the schema).  Run:  /venv/bin/python -m harness.manifest"""
import json
import os

VERIF = os.path.dirname(os.path.dirname(os.path.abspath(__file__)))

TB = (
    "Trusted: Coq 8.16.1 kernel incl. vm_compute (no native_compute); no axioms declared by the development "
    "(Print Assumptions per theorem is copied into the evidence); extraction via ExtrOcamlBasic only + OCaml 4.13.1 + "
    "coq/Extract/driver.ml; the translators under /verif/translate; the correspondence harness and its generators; "
    "CPython/Cython/C toolchain used to rebuild /repo's working tree. Modelled, not verified: Cython/CPython semantics "
    "of the source (C int width), dnaio/xopen/argparse/multiprocessing."
)

CLAIMED = {
    "C13": dict(
        text="Theorems (coq/Properties/C13.v): the running-sum scan returns the least argmax of the prefix sums over the positions reached "
        "before the scan stops (= BWA rule, shortest suffix on ties), uniqueness of that description, the 5'/3' combination, all-good/all-bad, "
        "base shift invariance, NextSeq = 3' rule on substituted qualities, reported count = removed bases; for all quality strings of any length. "
        "Tie to the code: extracted Gallina model vs quality_trim_index/nextseq_trim_index/QualityTrimmer/NextseqQualityTrimmer of the rebuilt working tree "
        "(exhaustive small scope + seeded random), and an independent suffix-sum oracle run on the implementation to find failing inputs.",
        technique="Coq proof (induction over the quality list) + extracted-model differential correspondence",
        design="6/C13",
        note=TB + " Bytes >= 128 (signed char) are outside the model: dnaio rejects non-ASCII input.",
    ),
    "C14": dict(
        text="Theorems (coq/Properties/C14.v): the poly-A/poly-T scan returns the least position maximising +1/-2 score among prefixes with at most 20% other bases "
        "(unique; tails < 3 ignored); --trim-n removes an all-N prefix and suffix and leaves a read that neither starts nor ends with N (idempotent, all-N -> empty); "
        "N count counts N and n; the 4x-unrolled four-accumulator expected-error loop equals the plain sum of table values in exact arithmetic for every length and table, "
        "rejects exactly bytes outside base..126; each of the 94 table entries regenerated from expected_errors.h is within relative 1e-14 of 10^(-k/10) (interval arithmetic). "
        "Tie: extracted model vs poly_a_trim_index/PolyATrimmer/NEndTrimmer/TooManyN; PrimFloat twin evaluated by vm_compute vs expected_errors bit-exactly; brute-force oracles for search. "
        "Partial in one respect: the rounding error of the double summation is not bounded by a theorem.",
        technique="Coq proof (induction; interval tactic for the table) + translator for the table + extracted-model / vm_compute differential correspondence",
        design="6/C14",
        note=TB + " C14_ee_table additionally rests on the standard library's real-number axioms (sig_forall_dec, sig_not_dec, functional_extensionality_dep, classic) "
        "and on the Interval/Flocq/Coquelicot libraries; PrimFloat is used for the executable float twin only.",
    ),
}

CLAIMED["C01"] = dict(
    text="Theorems (coq/Properties/C01.v), for every adapter of the eight classes (flags regenerated from adapters.py/align.py), every threshold table and every read: "
    "a reported match has coordinates inside adapter and read, obeys the documented placement rule of its type, covers at least min_overlap adapter characters, "
    "has errors <= thr(non-N adapter characters aligned) and the documented removal side (C01_sound_partial, by an invariant on every origin stored in the DP column of the "
    "line-by-line model of Aligner.locate); for the comparers (anchored, no indels) the error count is exactly the Hamming distance of the intervals (C01_comparer_exact). "
    "PARTIAL: that the DP cost equals the edit distance of the reported intervals is not a theorem; it is covered by the correspondence (model = Aligner.locate / match_to on "
    "all 16 flag sets and 8 classes) plus the textbook-distance oracle run on the implementation.",
    technique="Coq proof (invariant over the column fold of a line-by-line model of Aligner.locate) + translators (tables, flags, scores) + extracted-model differential correspondence; oracle search",
    design="6/C01",
    note=TB + " The float comparison cost <= L*rate is modelled as cost <= thr[L] with thr[L] = int(L*rate) computed in CPython by the code's own expression.",
)

CLAIMED["C02"] = dict(
    text="Theorems (coq/Properties/C02.v): for the comparers (anchored adapters, indels disabled) every occurrence at the anchored end within the Hamming tolerance is reported with exactly its "
    "distance, an error-free one is removed exactly, and no prefilter intervenes. PARTIAL: completeness of the banded DP (regular/non-internal/anywhere adapters, anchored with indels, "
    "the three cut-position clauses) is not a theorem; it rests on the correspondence (model match_to_prefiltered = implementation match_to for all eight classes) and on oracle_C02 "
    "(planted admissible occurrences verified by textbook distance, exhaustive enumeration of admissible interval quadruples in small scope, leftmost/rightmost exact-copy cut clauses) run against the implementation.",
    technique="Coq proof (comparers) + extracted-model differential correspondence of prefiltered match_to; brute-force oracle search on the implementation",
    design="6/C02",
    note=TB + " thr[L] = int(L*rate) computed in CPython. Two genuine defects found by this check were repaired in /repo (fix: commits 68eb3cf, 579ddcc; see known_findings.json).",
)
CLAIMED["C07"] = dict(
    text="Theorems (coq/Properties/C07.v) on the model of kmer_heuristic.py + KmerFinder.kmers_present (window arithmetic + windowed multi-pattern occurrence) + the finder each adapter class builds: "
    "the prefilter can only reject, so the property is equivalent to 'reported match implies prefilter passes'; comparers bypass it; the k-mer chunks partition the adapter prefix into max_errors+1 pieces; "
    "short reads always reach the aligner of an anywhere adapter. PARTIAL: completeness of the search tables (pigeonhole over edit scripts) is not a theorem; it rests on the correspondence "
    "(search tables as sets, kmers_present, prefiltered match_to: model = implementation) and on the with/without-prefilter oracle run on the implementation (random + exhaustive small scope).",
    technique="Coq proof (structural lemmas) + extracted-model differential correspondence (tables, kmers_present, match_to) + real-vs-mock-finder oracle on the implementation",
    design="6/C07",
    note=TB + " The shift-and bit machinery of _kmer_finder.pyx below 'windowed multi-pattern occurrence' is not modelled; windows extending past the read end (out-of-bounds read in the compiled code, "
    "can only turn no into yes) are clamped in the model and excluded from the kmers_present comparison. Two genuine defects were repaired in /repo (fix: commits 68eb3cf, 579ddcc).",
)

NOT_YET = {}


def main():
    props = [json.loads(l) for l in open(os.path.join(VERIF, "properties.jsonl"))]
    checks = []
    na = []
    for p in props:
        pid = p["id"]
        if pid in CLAIMED:
            c = CLAIMED[pid]
            checks.append(
                {
                    "property_id": pid,
                    "quick_cmd": "./check %s --tier quick" % pid,
                    "thorough_cmd": "./check %s --tier thorough" % pid,
                    "evidence_file": "/verif/evidence/%s.json" % pid,
                    "replay_cmd_template": "./check replay {path}",
                    "engine": "coq-proof+correspondence",
                    "level_claimed": {"category": "proof", "text": c["text"], "design_ref": c["design"]},
                    "level_note": c["note"],
                    "technique": c["technique"],
                }
            )
        else:
            na.append(
                {
                    "property_id": pid,
                    "reason": NOT_YET.get(
                        pid,
                        "not claimed yet: model/theorems for this property are planned in DESIGN.md but the check is not built at this commit",
                    ),
                }
            )
    man = {
        "version": 1,
        "setup_cmd": "./check setup",
        "hooks": {
            "guard": "CUTADAPT_VERIF",
            "enable": "checks copy /repo/src to /var/tmp/verif-<pid>/src, compile the Cython modules there and run with PYTHONPATH=<copy> CUTADAPT_VERIF=1",
            "baseline_off_cmd": "cd /repo && env -u CUTADAPT_VERIF /venv/bin/python -m pytest -ra -q -p no:cacheprovider --timeout=900 --continue-on-collection-errors",
            "source_commits": [],
            "add_only": True,
        },
        "engines": [
            {
                "name": "coq-proof+correspondence",
                "path": "/verif/check",
                "serves_properties": [c["property_id"] for c in checks],
                "kind_free_text": "Coq 8.16.1 development under /verif/coq (model, proofs, property theorems), translators regenerating coq/Generated from /repo, "
                "OCaml-extracted model run against the implementation rebuilt from /repo's working tree",
            }
        ],
        "checks": checks,
        "not_applicable": na,
        "notes": "See DESIGN.md. Every check: regenerate coq/Generated from /repo, make the property's theorems, audit for axioms, rebuild the implementation from the working tree, "
        "run implementation vs extracted model and the property oracle; on any break search for a failing input.",
    }
    with open(os.path.join(VERIF, "MANIFEST.json"), "w") as f:
        json.dump(man, f, indent=1)
        f.write("\n")


if __name__ == "__main__":
    main()
