"""Writes /verif/MANIFEST.json from the table below (so that it is always valid JSON
matching the schema).  Run:  /venv/bin/python -m harness.manifest"""
import json
import os

VERIF = os.path.dirname(os.path.dirname(os.path.abspath(__file__)))

TB = (
    "Trusted: Coq 8.16.1 kernel incl. vm_compute (no native_compute); no axioms declared by the development "
    "(Print Assumptions per theorem is copied into the evidence); extraction via ExtrOcamlBasic only + OCaml 4.13.1 + "
    "coq/Extract/driver.ml; the translators under /verif/translate; the correspondence harness and its generators; "
    "CPython/Cython/C toolchain used to rebuild /repo's working tree. Modelled, not verified: Cython/CPython semantics "
    "of the source (C int width), dnaio/xopen/argparse/multiprocessing."
)

CLAIMED = {
    "C13": dict(
        text="Theorems (coq/Properties/C13.v): the running-sum scan returns the least argmax of the prefix sums over the positions reached "
        "before the scan stops (= BWA rule, shortest suffix on ties), uniqueness of that description, the 5'/3' combination, all-good/all-bad, "
        "base shift invariance, NextSeq = 3' rule on substituted qualities, reported count = removed bases; for all quality strings of any length. "
        "Tie to the code: extracted Gallina model vs quality_trim_index/nextseq_trim_index/QualityTrimmer/NextseqQualityTrimmer of the rebuilt working tree "
        "(exhaustive small scope + seeded random), and an independent suffix-sum oracle run on the implementation to find failing inputs.",
        technique="Coq proof (induction over the quality list) + extracted-model differential correspondence",
        design="6/C13",
        note=TB + " Bytes >= 128 (signed char) are outside the model: dnaio rejects non-ASCII input.",
    ),
    "C14": dict(
        text="Theorems (coq/Properties/C14.v): the poly-A/poly-T scan returns the least position maximising +1/-2 score among prefixes with at most 20% other bases "
        "(unique; tails < 3 ignored); --trim-n removes an all-N prefix and suffix and leaves a read that neither starts nor ends with N (idempotent, all-N -> empty); "
        "N count counts N and n; the 4x-unrolled four-accumulator expected-error loop equals the plain sum of table values in exact arithmetic for every length and table, "
        "rejects exactly bytes outside base..126; each of the 94 table entries regenerated from expected_errors.h is within relative 1e-14 of 10^(-k/10) (interval arithmetic). "
        "Tie: extracted model vs poly_a_trim_index/PolyATrimmer/NEndTrimmer/TooManyN; PrimFloat twin evaluated by vm_compute vs expected_errors bit-exactly; brute-force oracles for search. "
        "Partial in one respect: the rounding error of the double summation is not bounded by a theorem.",
        technique="Coq proof (induction; interval tactic for the table) + translator for the table + extracted-model / vm_compute differential correspondence",
        design="6/C14",
        note=TB + " C14_ee_table additionally rests on the standard library's real-number axioms (sig_forall_dec, sig_not_dec, functional_extensionality_dep, classic) "
        "and on the Interval/Flocq/Coquelicot libraries; PrimFloat is used for the executable float twin only.",
    ),
}

CLAIMED["C01"] = dict(
    text="Theorems (coq/Properties/C01.v), for every adapter of the eight classes (flags regenerated from adapters.py/align.py), every threshold table and every read: "
    "a reported match has coordinates inside adapter and read, obeys the documented placement rule of its type, covers at least min_overlap adapter characters, "
    "has errors <= thr(non-N adapter characters aligned) and the documented removal side (C01_sound_partial, by an invariant on every origin stored in the DP column of the "
    "line-by-line model of Aligner.locate); the reported number of errors is EXACTLY the edit distance of the two reported intervals under the configured wildcard rules and indel cost "
    "(1 with indels, 100000 without), for every class that uses the aligner: it is achieved by an alignment (C01_errors_achieved: upper-bound invariant with an edit-script witness on "
    "every DP cell within the error budget; cells left stale by the Ukkonen cut-off shown irrelevant; the early exit on an exact match handled by score bounds) and no alignment of the "
    "two intervals is cheaper (C01_errors_exact, C01_locate_errors_minimal, C01_locate_errors_minimal_tail: lower-bound invariant over all admissible start positions; diagonal "
    "monotonicity of the edit distance justifies the cut-off; for the classes that must end at the read end the DP starts in a later column with over-estimated costs, shown harmless by a "
    "further invariant); for the comparers (anchored, no indels) the error count is exactly the Hamming distance (C01_comparer_exact); C01_threshold_tables discharges the hypothesis on "
    "thresholds for every non-negative non-decreasing table. The property's statement is thereby proved on the model for all eight classes; tie to the code: correspondence (model = "
    "Aligner.locate / match_to on all 16 flag sets and 8 classes, millions of cases) plus the textbook-distance oracle run on the implementation.",
    technique="Coq proof (three invariants over the column fold of a line-by-line model of Aligner.locate; inductive edit-script relation with inversion, closed under reversal) + translators (tables, flags, scores) + extracted-model differential correspondence; oracle search",
    design="6/C01",
    note=TB + " The float comparison cost <= L*rate is modelled as cost <= thr[L] with thr[L] = int(L*rate) computed in CPython by the code's own expression; the harness asserts every table it generates is non-negative and non-decreasing.",
)

CLAIMED["C02"] = dict(
    text="Theorems (coq/Properties/C02.v): for the comparers (anchored adapters, indels disabled) every occurrence at the anchored end within the Hamming tolerance is reported with exactly its "
    "distance, an error-free one is removed exactly, and no prefilter intervenes; for regular 5', regular 3' and 'anywhere' adapters (indels enabled or disabled), an error-free copy of the whole adapter "
    "anywhere in the read is always found by the aligner (C02_full_copy_found, C02_locate_full_copy: the DP cells on the diagonal of the copy are tracked exactly and cannot be cut off). "
    "The with-indels clause is a theorem too (C02_locate_occurrence_found, C02_occurrence_found, C02_occurrence_found_rightmost; Proofs/AlignFound.v): for every adapter type that cannot skip the beginning of the adapter "
    "(regular 3', non-internal 3', anchored 3'/5' with indels, 'rightmost' 5' on the reversed strings), indels on or off, whenever any admissible occurrence -- adapter prefix against a read segment, placed as the type allows, "
    "at least min_overlap long, with an alignment whose cost is within the tolerance for its length -- exists, the aligner reports a match (C01's lower-bound invariant + the Ukkonen cut-off + the two acceptance points: column loop and last-column scan, "
    "the latter also for the variant that starts at column n-m-k). "
    "The first clause holds for every remaining shape as well (C02_copy_found, C02_locate_copy_found; Proofs/AlignCopyGen.v): for all types whose aligner may stop anywhere in the read (regular/non-internal 5', 'anywhere', regular 3', anchored 5'), "
    "an error-free occurrence adapter[rs,rs+L) = read[p,p+L) with rs = 0 or p = 0 as the type allows, ending at the end of the adapter or (partial adapter) of the read, at least min_overlap long, is always reported -- including a read lying inside an 'anywhere' adapter. "
    "'Reported' means match_to with its prefilter: C02_found_is_reported (by C07_no_change). "
    "The cut-position clauses are theorems as well (Proofs/AlignCut.v, AlignCutTail.v): with p the leftmost error-free copy of the whole adapter, a regular 5'/3' or 'anywhere' adapter reports exactly [p, p+m) or a match that ends before p+m and starts more than m/2 before p "
    "(C02_leftmost_copy; hence C02_back_cut_at_or_before -- cut at or before p and no error-free copy in what is kept -- and C02_front_cut_at_or_before); on the reversed strings the same yields C02_rightmost_copy / C02_rightmost_cut_at_or_after; "
    "an error-free anchored adapter is removed exactly also with indels (C02_anchored5_exact; C02_anchored3_exact via minimality of the reported cost over all starts). "
    "Invariants used: exact tracking of the copy's diagonal, score = m only at cost 0 with the whole adapter (cellU), every cell computed at row i in a column j >= p+i has origin >= p (cellG; a stale cell below the Ukkonen band is too expensive for the insertion branch), the stale C variable `origin` of the last-column scan included. "
    "What is not a theorem is the tie of the aligner model to _align.pyx: correspondence (model match_to_prefiltered = implementation match_to for all eight classes) and oracle_C02 "
    "(planted admissible occurrences verified by textbook distance, exhaustive enumeration of admissible interval quadruples in small scope, leftmost/rightmost exact-copy cut clauses) run against the implementation.",
    technique="Coq proof (comparers; exact tracking of the diagonal of an error-free copy; completeness of the banded DP for occurrences with errors via the lower-bound invariant; cut positions via score/origin invariants of the recurrence and the candidate-replacement rule; all on the column fold of the Aligner.locate model) + extracted-model differential correspondence of prefiltered match_to; brute-force oracle search on the implementation",
    design="6/C02",
    note=TB + " thr[L] = int(L*rate) computed in CPython. Two genuine defects found by this check were repaired in /repo (fix: commits 68eb3cf, 579ddcc; see known_findings.json).",
)
CLAIMED["C07"] = dict(
    text="THEOREM C07_no_change (coq/Properties/C07.v, Proofs/KmerComplete.v + KmerOverlap.v) on the model of kmer_heuristic.py + KmerFinder.kmers_present (window arithmetic + windowed multi-pattern occurrence) + the finder each adapter class builds "
    "(incl. the ShortReadKmerFinder wrapper): for every adapter class (all eight, with and without force_anywhere, indels on/off, wildcard flags), every threshold table with thr 0 = 0, steps of at most one and thr i < i "
    "(= int(i*rate) for every rate below 1; asserted by the harness for every table it uses), ASCII adapter and read, min_overlap >= 1, adapter shorter than 100000: match_to_prefiltered = match_to. "
    "Proof: C01's distance theorem gives an edit script for whatever the aligner reports; its placement is one of four shapes; error_lengths and the back/front overlap loops are characterised (every prefix length a has a set whose k-mers are the E+1 chunks of a piece "
    "no longer than a with E >= thr a and a window >= a (+E with indels)); pigeonhole over the script (ed_split, ed_pigeon) leaves a chunk verbatim inside the window; remove_redundant_kmers only widens windows; a read inside the adapter takes the short-read bypass; "
    "the aligner's character comparison implies the k-mer finder's for all ASCII pairs and flag sets (vm_compute over 127 x 127 x 8). Also: prefilter only rejects, comparers bypass it, chunks partition. "
    "The bit level of _kmer_finder.pyx is modelled too (Model/ShiftAnd.v: greedy packing of an entry's k-mers into 64-bit words, init/found/character masks, R = ((R << 1 mod 2^64) | init) & mask[c]) and proved to compute "
    "the occurrence predicate the k-mer model uses (C07_shift_and_correct: bit off_w + i of the state is set iff the first i+1 characters of word w match the text ending here; the bit carried from one word into the next is absorbed by the init mask; "
    "C07_packed_search_correct, C07_kmers_present_bit_level). "
    "Tie to the code: correspondence (search tables as sets, kmers_present at both levels of the model, prefiltered match_to: model = implementation) and the with/without-prefilter oracle run on the implementation (random + exhaustive small scope).",
    technique="Coq proof (full statement: pigeonhole over edit scripts, characterisation of error_lengths / overlap search sets / minimize / windows) + extracted-model differential correspondence (tables, kmers_present, match_to) + real-vs-mock-finder oracle on the implementation",
    design="6/C07",
    note=TB + " The shift-and bit machinery of _kmer_finder.pyx below 'windowed multi-pattern occurrence' is not modelled; windows extending past the read end (out-of-bounds read in the compiled code, "
    "can only turn no into yes) are clamped in the model and excluded from the kmers_present comparison. Non-ASCII bytes and rates >= 1 are outside the theorem. Two genuine defects were repaired in /repo (fix: commits 68eb3cf, 579ddcc).",
)

CLAIMED['C03'] = dict(
    text="Theorems (coq/Properties/C03.v) on the single-end pipeline model, for every option set, adapter set (Forall wf_padapter) and read: with actions trim/none the written read is a contiguous slice of the input read (of its reverse complement exactly when --revcomp chose it), qualities are the same slice (zero-capped only if -z, only values below the base), sequence and qualities have equal length (C03_slice, using C01's structure theorem for every applied match and the composition of rounds); every non-adapter stage is a same-slice / names-only / zero-cap-only step; mask and lowercase keep length and qualities and write N / lower case exactly outside the composed interval; retain/crop are Python slices (contiguous, qualities in step). Paired-end: C03_paired_slice (Proofs/PairedSlice.v) -- for trim/none, every option set and order, both mates leaving the paired chain are well-formed and each is a slice, qualities in step, of its own input mate or (only with --revcomp, when the paired reverse-complement step swapped the pair) of the other one; covers --pair-adapters, paired --revcomp and one cutter per mate. The exact retain/crop interval for pairs is checked by correspondence + the paired slice oracle, not proved.",
    technique="Coq proof (induction over the stage list, slice composition lemmas, C01 structure theorem) + Orders translator + extracted-model system-level correspondence; slice oracle on the implementation's outputs",
    design='6/C03',
    note=TB + " System-level tie: cutadapt.cli.main run in-process on the rebuilt working tree vs the extracted pipeline model (output files, info file, JSON report counts and per-adapter statistics compared); argparse, dnaio and report formatting are not modelled; adapter objects are taken from the real parser (C18's business); --rename, wildcard/rest files and adapter indexing (runs use --no-index) are outside the pipeline model.",
)
CLAIMED['C04'] = dict(
    text="Theorems (coq/Properties/C04.v) on the pipeline model's run = fold over reads: input = written + sum of all filter categories; every read has exactly one fate (written to one file xor one category); each output/redirect file is exactly the subsequence of reads routed to it, once each, in input order; every reported figure (input, bp, written, written bp, with-adapter, reverse-complemented, quality-trimmed, poly-A-trimmed, each category) is the sum over the individual reads. Genuine defect F4b repaired in /repo (66e8330). Pairs: C05_totals / C05_sync give the same accounting for the paired model incl. {name1}/{name2} demultiplexing (genuine defect F4a repaired in /repo, b5f4efd). Text/minimal report layouts are not modelled (the JSON counts are).",
    technique="Coq proof (induction over the read list) + extracted-model system-level correspondence; recount oracle on the implementation's files and JSON report",
    design='6/C04',
    note=TB + " System-level tie: cutadapt.cli.main run in-process on the rebuilt working tree vs the extracted pipeline model (output files, info file, JSON report counts and per-adapter statistics compared); argparse, dnaio and report formatting are not modelled; adapter objects are taken from the real parser (C18's business); --rename, wildcard/rest files and adapter indexing (runs use --no-index) are outside the pipeline model.",
)
CLAIMED['C09'] = dict(
    text="Theorems (coq/Properties/C09.v): MultipleAdapters.match_to returns the first candidate (in the given order) that no other candidate beats on (score, then fewer errors) (C09_best, invariant over the fold); --times rounds compose into one interval of the read the stage received, every applied match lies inside the sequence it was found in (by C01), search stops at the first miss; linked adapters: 3' part searched in what the 5' part leaves, None iff a required part is missing or nothing found (C09_linked); no match leaves the read untouched. Non-trim actions on the composed interval: C03_actions.",
    technique="Coq proof (fold invariant, induction over rounds) + extracted-model system-level correspondence; rule oracle on the implementation's single-adapter answers",
    design='6/C09',
    note=TB + " System-level tie: cutadapt.cli.main run in-process on the rebuilt working tree vs the extracted pipeline model (output files, info file, JSON report counts and per-adapter statistics compared); argparse, dnaio and report formatting are not modelled; adapter objects are taken from the real parser (C18's business); --rename, wildcard/rest files and adapter indexing (runs use --no-index) are outside the pipeline model.",
)
CLAIMED['C10'] = dict(
    text="Theorems (coq/Properties/C10.v): the stage order regenerated from cli.py on every run equals the documented order (C10_order: a closed equality that stops compiling when two stages are swapped in the source); the chain is the left fold of the stages, each seeing the previous output; an absent option contributes no stage; the adapter stage sits between cut/NextSeq/quality and the rest. The model's option record is a set (only -u keeps order): independence of argv order is checked by running the implementation with permuted argv against the model and against the composition of single-stage implementation runs. Which mate each option reaches is C05_sides / C05_stages_per_mate on the paired model, checked against single-end runs of each mate.",
    technique='Coq proof + fail-closed AST translator of make_pipeline_from_args (Generated/Orders.v) + extracted-model correspondence under permuted argv; stage-composition oracle on the implementation',
    design='6/C10',
    note=TB + " System-level tie: cutadapt.cli.main run in-process on the rebuilt working tree vs the extracted pipeline model (output files, info file, JSON report counts and per-adapter statistics compared); argparse, dnaio and report formatting are not modelled; adapter objects are taken from the real parser (C18's business); --rename, wildcard/rest files and adapter indexing (runs use --no-index) are outside the pipeline model.",
)
CLAIMED['C11'] = dict(
    text="Theorems (coq/Properties/C11.v): the filter order regenerated from cli.py equals the documented order, text writers come before and the sink after all filters; the first filter whose predicate holds consumes the read (C11_first) and a read passes iff none holds; each integer criterion is the documented strict inequality with its redirect destination, boundary values are kept. The three float criteria (--max-n fraction, --max-ee, --max-aer) are parameters of the model; their cases are decided by the decimal oracle on the implementation (boundary-ambiguous ones skipped). Pair-filter modes: C05_mode / C05_first on the paired model.",
    technique='Coq proof + Orders translator + extracted-model system-level correspondence; criteria oracle on the implementation',
    design='6/C11',
    note=TB + " System-level tie: cutadapt.cli.main run in-process on the rebuilt working tree vs the extracted pipeline model (output files, info file, JSON report counts and per-adapter statistics compared); argparse, dnaio and report formatting are not modelled; adapter objects are taken from the real parser (C18's business); --rename, wildcard/rest files and adapter indexing (runs use --no-index) are outside the pipeline model.",
)
CLAIMED['C15'] = dict(
    text='Theorems (coq/Properties/C15.v): with {name} the sink routes by the adapter of the last match / unknown / untrimmed output / discard (C15_route); without trimmed/untrimmed options every read yields the same record and is written exactly when it is written by the same command without {name} (C15_same_records, a theorem relating two runs); each file is the in-order subsequence routed to it. That a file exists for every adapter name even if empty is checked on the implementation only. Paired and combinatorial demultiplexing are in the paired model (psink) and its correspondence; no separate theorem beyond C05_sync.',
    technique='Coq proof + extracted-model system-level correspondence; routing/multiset oracle on the implementation',
    design='6/C15',
    note=TB + " System-level tie: cutadapt.cli.main run in-process on the rebuilt working tree vs the extracted pipeline model (output files, info file, JSON report counts and per-adapter statistics compared); argparse, dnaio and report formatting are not modelled; adapter objects are taken from the real parser (C18's business); --rename, wildcard/rest files and adapter indexing (runs use --no-index) are outside the pipeline model.",
)
CLAIMED['C16'] = dict(
    text='Theorems (coq/Properties/C16.v): the --revcomp stage returns the forward result unless the reverse complement has a match and a strictly higher total score, in which case it returns the trimmed reverse complement with reversed qualities, name suffix and the flag (C16_choice); ties keep the given orientation (C16_tie). Genuine defect F16 repaired in /repo (3fe341c). The paired variant (R1/R2 swap) is modelled (paired_revcomp) and checked by correspondence plus an API-level oracle; no separate theorem. {rc} under --rename is not modelled.',
    technique='Coq proof + extracted-model system-level correspondence; API-level choice oracle on the implementation',
    design='6/C16',
    note=TB + " System-level tie: cutadapt.cli.main run in-process on the rebuilt working tree vs the extracted pipeline model (output files, info file, JSON report counts and per-adapter statistics compared); argparse, dnaio and report formatting are not modelled; adapter objects are taken from the real parser (C18's business); --rename, wildcard/rest files and adapter indexing (runs use --no-index) are outside the pipeline model.",
)
CLAIMED['C17'] = dict(
    text="Theorems (coq/Properties/C17.v): for a match lying in a sequence as long as the displayed read, the row has 11 fields, fields 2-4 are errors/start/end, fields 5-7 concatenate to the displayed read and the middle one is exactly [start,end), fields 9-11 split the qualities at the same coordinates (C17_fields, via C01 ranges); the info writer precedes every filter. KNOWN FINDING F17 (not repaired): after 5' removal before adapter trimming the coordinates are shifted; C17_F17_refuted proves this of the faithful model by a computed witness, the check prints KNOWN-FINDING for it and still reports any other violation.",
    technique="Coq proof + Orders translator + extracted-model system-level correspondence (info file compared row by row); re-alignment oracle on the implementation's info file",
    design='6/C17',
    note=TB + " System-level tie: cutadapt.cli.main run in-process on the rebuilt working tree vs the extracted pipeline model (output files, info file, JSON report counts and per-adapter statistics compared); argparse, dnaio and report formatting are not modelled; adapter objects are taken from the real parser (C18's business); --rename, wildcard/rest files and adapter indexing (runs use --no-index) are outside the pipeline model.",
)
CLAIMED['C20'] = dict(
    text='Theorems (coq/Properties/C20.v): the incremental per-adapter table (adapter, end, removed length, errors) equals the count of applied matches with that key (C20_tally), tallies of chunks add (C20_tally_merge); the allowed-errors ranges list has thr(n)+1 entries ending in n and, for every 1 <= L <= n, the number of break points below L is thr L = int(L*rate) (C20_ranges, for any monotone thr with thr 0 = 0). Genuine defect F20 repaired in /repo (dc20406). PARTIAL: R2 statistics and --pair-adapters not modelled yet.',
    technique='Coq proof (fold/count lemma, loop invariant for the ranges) + extracted-model system-level correspondence of per-adapter statistics; info-file tally oracle on the implementation',
    design='6/C20',
    note=TB + " System-level tie: cutadapt.cli.main run in-process on the rebuilt working tree vs the extracted pipeline model (output files, info file, JSON report counts and per-adapter statistics compared); argparse, dnaio and report formatting are not modelled; adapter objects are taken from the real parser (C18's business); --rename, wildcard/rest files and adapter indexing (runs use --no-index) are outside the pipeline model.",
)

CLAIMED["C05"] = dict(
    text="Theorems (coq/Properties/C05.v) on the paired pipeline model (Model/Paired.v): every pair file is exactly the pairs routed to it, both mates together, once each, in input order, so the R1 and R2 projections have equal length and record k of both comes from the same input pair (C05_sync); one fate per pair (C05_unit); the pair decision is the documented truth table for any/both/first and a one-sided LEN:/:LEN2 bound looks at that mate only (C05_mode); 'both' is forced for the untrimmed filters exactly when adapters are given for one side only (C05_override/C05_no_override); first applicable pair filter consumes the pair; --pair-adapters trims both mates by adapters of the same rank or leaves both unchanged (C05_pair_adapters); pairs in = written + filtered (C05_totals); which mate each option reaches (C05_sides, C05_stages_per_mate); interleaving round-trips. Genuine defects F3 and F4a repaired in /repo (b80768e, b5f4efd). That the two physical files both receive their record is dnaio's paired writer: exercised, not modelled.",
    technique="Coq proof (induction over pairs/filters) + extracted-model system-level correspondence on paired option sets; zip/decision oracle on the implementation's outputs",
    design="6/C05",
    note=TB + " System-level tie: cutadapt.cli.main run in-process on the rebuilt working tree vs the extracted paired pipeline model; dnaio's paired/interleaved readers and writers, argparse and report formatting are not modelled; float filters (--max-ee, --max-aer, fractional --max-n) and info files are not in the paired model.",
)

CLAIMED["C06"] = dict(
    text="Theorems (coq/Properties/C06.v) on a labelled-transition-system model of the multi-core runner (reader, W workers, need-work queue as a bag, per-worker FIFO pipes, "
    "collecting main process with the ordered chunk writer; a schedule is an arbitrary label sequence). Main theorem C06_final: for every W > 0, every chunking, every schedule, a run "
    "that finishes has written the blocks of ALL chunks in input order and -- statistics forming a commutative monoid -- has merged exactly the statistics of all chunks, whatever worker "
    "processed which chunk and in whatever order results arrived; C06_multicore_final instantiates it with the pipeline model: every destination holds what one core writes there for the "
    "whole input and the merged record count is the one-core count. Also: at every moment the blocks written are the in-order prefix (C06_written_is_prefix, C06_multicore_prefix); files, "
    "counts, reports and tallies of a chunked input are the concatenation / sum over the chunks (C06_files_chunked, C06_counts_chunked, C06_report_chunked, C06_tally_merge); every schedule "
    "is finite (C06_schedules_bounded) and no reachable non-terminal state is stuck (C06_no_deadlock). Proof: five invariants over all schedules (RunnerSafety.inv, and binv/oinv/pinv/kinv/"
    "tinv/cinv/sinv in Proofs/RunnerLive.v, RunnerStats.v). Tie to the code: a guarded add-only hook in runners.py records every protocol event of real -j N runs; the extracted model "
    "replays each recorded trace and must accept every event, end finished, with all chunks written in order and all chunk statistics merged; plus the one-core vs 2-4-core differential "
    "(x --buffer-size x perturbed schedules) on all output files byte-wise and the JSON report. Genuine defects found and repaired: F6 (af2c43b), F21 interleaved FASTA on several cores (41c57e9).",
    technique="Coq proof (invariants over all schedules of an LTS model of the runner, AC rewriting for the statistics; induction over chunks for the pipeline) + trace-validation correspondence via a guarded hook + one-core/multi-core differential",
    design="6/C06",
    note=TB + " Pipes and the queue are modelled as unbounded lists / a bag (blocking only removes schedules); process start-up, pickling and OS scheduling are not modelled; that the real "
    "Statistics.__iadd__ is a commutative monoid operation is an assumption of C06_final, tested by the differential on the JSON report. AAC_tactics is used for AC rewriting (no axioms). "
    "The OS picks the schedules that are actually observed; CUTADAPT_VERIF_SCHED perturbs them with seeded micro-sleeps.",
)

CLAIMED["C12"] = dict(
    text="Theorems (coq/Properties/C12.v) on the runner model with fault parameters (a chunk that makes the worker raise, a reader that raises before chunk k, a failing format detection), "
    "for every fault pattern and every schedule: a run that finishes without failure has met no fault and has handed out all chunks (C12_fail_visible: status 0 only for well-formed input) "
    "and then has written every block (C12_complete_when_ok); the blocks written before an error are complete, correctly processed chunks in input order (C12_written_before_error); a "
    "reachable state that is neither finished nor failed always has an enabled step (C12_no_deadlock) and every schedule is finite (C12_schedules_bounded): no hang in the protocol. "
    "PARTIAL: the single-core path, the mapping of exceptions to the exit status in cli.main, and what dnaio counts as malformed are not modelled. They rest on the fault enumeration: "
    "truncation of plain (thorough: every byte position) and gzip inputs, byte flips in the gzip stream, seven single-record corruptions at first/middle/last record, paired FASTQ/FASTA inputs "
    "with missing/renamed mates and truncated R1/R2/interleaved files, with one core and 2-4 cores, 60 s time bound; oracle: own strict parsers decide well-formedness; malformed => non-zero "
    "exit, message, no hang, every output a record-boundary prefix of the intact run's output; well-formed => exit 0 and exactly the intact run's records for the reads present. Faulty "
    "multi-core traces are replayed in the extracted model. Genuine defect found and repaired: F22 hang on corrupt gzip with several cores (79df809).",
    technique="Coq proof (invariants over all schedules and fault patterns of the runner LTS: pipe shapes, pill accounting, fault tracking) + trace-validation correspondence of faulty runs + fault enumeration with an independent well-formedness oracle",
    design="6/C12",
    note=TB + " Modelled, not verified: exception propagation inside a process, termination of children by the OS, closing of output files by cli.main; dnaio's parser decides what is an error.",
)

CLAIMED["C18"] = dict(
    text="Theorems (coq/Properties/C18.v) on a model of parser.py and SingleAdapter.__init__ (Model/Parser.v): the (option, restriction, rightmost) -> adapter class table is the documented one "
    "(C18_class_table); ^CORE, X..XCORE, CORE$, COREX..X and plain CORE yield the documented restriction and the bare core, two restrictions on one end are rejected (C18_notation_*, "
    "C18_two_restrictions_rejected); parameter precedence adapter-level over file-level over global for every parameter (C18_precedence); an error parameter >= 1 is divided by the number "
    "of non-N bases and every other field of the adapter description is as documented (C18_description); which parts of a linked adapter are required (C18_linked_required). "
    "The round trip over the documented grammar is a theorem too (Proofs/ParserRoundTrip.v, ParserBraces.v): the printed form of an abstract specification -- optional name=, one restriction "
    "marker, a core of segments text / text{n}, search parameters in any documented spelling with flag, integer or decimal values -- is parsed into exactly the parts it was printed from "
    "(C18_round_trip, C18_round_trip_braces, C18_parameters_round_trip, C18_brace_expansion); without '...' it builds the single adapter of those parts, A...B the linked adapter of the two "
    "(C18_adapter_from_printed, C18_linked_notation, C18_linked_meaning); file:, ^file:, file$: turn every record into a specification with that anchor under the file-level parameters (C18_file*); blanks around name, sequence, fields, keys and values change nothing (C18_round_trip_blanks, C18_parameters_blanks); the option letter x marker table read off the printed string (C18_printed_table). "
    "PARTIAL: numerals other than digits / digits.digits, the text of error messages and the exit status are not covered by theorems; they are covered by the "
    "correspondence of the extracted parser model with make_adapters_from_specifications on strings printed from random ASTs of the documented grammar plus the documented-invalid strings "
    "(CLI exit status 2), and by a documentation-table oracle applied to the AST.",
    technique="Coq proof (case analysis / induction over the specification string) + extracted-model differential correspondence with make_adapters_from_specifications; documentation-table oracle",
    design="6/C18",
    note=TB + " FASTA reading for file: specifications is dnaio's; rates are compared as exact fractions of the decimal literal.",
)

CLAIMED["C19"] = dict(
    text="Theorems (coq/Properties/C19.v) on a model of files.py's output-format decision (Model/Format.v: detect_format_from_path incl. os.path.splitext, and its use in "
    "OutputFiles.open_record_writer): the decision is a function of the output name and of whether the input has qualities only -- the core count and the input's compression are not "
    "arguments; appending any of .gz/.xz/.bz2/.zst to an uncompressed name never changes it (C19_compression_suffix_irrelevant); a FASTA extension gives FASTA, a FASTQ extension gives "
    "FASTQ exactly when there are qualities (C19_name_decides, for every stem); unknown names fall back to the input format (C19_fallback); two files vs interleaved: "
    "deinterleave(interleave pairs) = pairs (C19_interleaved_layout); FASTA input gives the same names and sequences as FASTQ input when no quality-based option is used: the pipeline model "
    "run on a read with its qualities dropped has the same fate, the same matches and the output read with qualities dropped, for every stage order, option set and read "
    "(C19_fasta_equals_fastq). PARTIAL: that compressed containers hold the same bytes as plain ones is xopen's and the compression libraries' business "
    "(not modelled). That and the tie of the theorems to the code are covered by the matrix: every random single-end/paired "
    "option set is run plain/two-file/one-core and then under input container {plain,gz,multi-member gz,bz2,xz,zst} x output container {plain,gz,bz2,xz,zst} x interleaved in/out x FASTA "
    "input x .fasta output names x 1/2 cores; decompressed records must be equal and every file must hold the format its name asks for (own reading of the documentation). Tie of the model: "
    "extracted decision vs the writer class really created (direct and proxied) for ~400-4000 generated names. Genuine defects repaired: F6 (af2c43b), F21 (41c57e9).",
    technique="Coq proof (case analysis on the reversed name; list induction) + extracted-model differential correspondence with OutputFiles.open_record_writer + container x layout x name x cores matrix differential",
    design="6/C19",
    note=TB + " Python's gzip/bz2/lzma and backports.zstd build the compressed inputs and decompress outputs; a zero-byte container is read as 'no records'; names are lower-cased by the harness before they reach the model.",
)

CLAIMED["C08"] = dict(
    text="Theorems (coq/Properties/C08.v) on Model/Index.v, where the dictionary is a function: index_lookup ads s = the fold over the adapters, in the given order, of 'is s in this "
    "adapter's neighbourhood and with which (errors, matches)' with the replacement and ambiguity rule of _make_index; neighbourhood membership runs the banded DP of edit_environment "
    "along s (indels) or counts mismatches (no indels): every entry belongs to an adapter of the set in whose neighbourhood the key lies, with that adapter's own errors/matches "
    "(C08_entry_sound); without indels the entry is exact -- same length, errors = Hamming distance <= k, matches = length - errors (C08_hamming_exact); an adapter strictly closer "
    "to the key than every other one is what the dictionary holds wherever it stands in the list, i.e. independently of the adapter order (C08_unique_best_any_order); keys have one of "
    "the indexed lengths (C08_key_lengths, from the band of the DP); the coordinates of every match reported by the look-up loop lie inside the read and are anchored, also for reads "
    "shorter than an indexed string (C08_coordinates); whenever all anchored affixes of an N-free read that the dictionary knows belong to one adapter and one of them has an indexed length "
    "that fits, a match is reported and it is a match of that adapter (C08_unique_reported: loop over descending lengths, sequential affix shrinking = direct slicing). the error count of every entry is its exact distance within the tolerance -- the edit distance for adapters with indels (C08_entry_exact: the banded DP of edit_environment "
    "computes in every cell of the band the prefix distance capped at k+1; cells outside the band have distance > k), the Hamming distance otherwise; for reads with N the fallback reports a match of that adapter against the affix that covers the whole affix, with that match's own (by C01 exact) error count (C08_n_fallback_covers, after the repair of F8c). The statement of the property is "
    "thereby covered by theorems on the model; the clause about agreement with one-by-one search is C08_agrees_with_one_by_one / C08_agrees_with_one_by_one_suffix (Proofs/IndexAgree.v) for anchored 5' and 3' adapters: equal length, no indels, N-free reads with a unique nearest adapter among those within their own tolerance -> index_match and the best of the individual comparers (best_match, C09's rule) give the same adapter, coordinates and errors. Tie to the code rests on the correspondence (IndexedPrefix/SuffixAdapters.match_to, the index's string lengths and "
    "dictionary content on probe strings vs the extracted model; 16k-200k cases) and on the textbook-distance oracle (soundness incl. coordinates and exact errors for all reads incl. reads with N, unique occurrence, "
    "agreement with one-by-one search and order independence for equal lengths without indels; also at the command line with and without --no-index). Genuine defects found and repaired: "
    "F8a (9002ce0), F8b (db1eac7), F8c (b1d2a97: N fallback removed more bases than were aligned).",
    technique="Coq proof (fold invariants over the adapter list; band argument on the model of edit_environment's DP; loop invariants for the affix look-up) + extracted-model differential correspondence with AdapterIndex; textbook-distance oracle on the implementation",
    design="6/C08",
    note=TB + " 'Two nearest adapters' is read as nearest among the adapters that occur within their own tolerance. Reads with N go through the re-alignment fallback, which is modelled (match_to); C08_n_fallback_covers + C01_errors_exact give the exactness of its error count, the look-up loop theorems (C08_unique_reported) are stated for N-free reads.",
)

NOT_YET = {}


def main():
    props = [json.loads(l) for l in open(os.path.join(VERIF, "properties.jsonl"))]
    checks = []
    na = []
    for p in props:
        pid = p["id"]
        if pid in CLAIMED:
            c = CLAIMED[pid]
            checks.append(
                {
                    "property_id": pid,
                    "quick_cmd": "./check %s --tier quick" % pid,
                    "thorough_cmd": "./check %s --tier thorough" % pid,
                    "evidence_file": "/verif/evidence/%s.json" % pid,
                    "replay_cmd_template": "./check replay {path}",
                    "engine": "coq-proof+correspondence",
                    "level_claimed": {"category": "proof", "text": c["text"], "design_ref": c["design"]},
                    "level_note": c["note"],
                    "technique": c["technique"],
                }
            )
        else:
            na.append(
                {
                    "property_id": pid,
                    "reason": NOT_YET.get(
                        pid,
                        "not claimed yet: model/theorems for this property are planned in DESIGN.md but the check is not built at this commit",
                    ),
                }
            )
    man = {
        "version": 1,
        "setup_cmd": "./check setup",
        "hooks": {
            "guard": "CUTADAPT_VERIF",
            "enable": "checks copy /repo/src to /var/tmp/verif-<pid>/src, compile the Cython modules there and run with PYTHONPATH=<copy> CUTADAPT_VERIF=1",
            "baseline_off_cmd": "cd /repo && env -u CUTADAPT_VERIF /venv/bin/python -m pytest -ra -q -p no:cacheprovider --timeout=900 --continue-on-collection-errors",
            "source_commits": ["b5d31ac"],
            "add_only": True,
        },
        "engines": [
            {
                "name": "coq-proof+correspondence",
                "path": "/verif/check",
                "serves_properties": [c["property_id"] for c in checks],
                "kind_free_text": "Coq 8.16.1 development under /verif/coq (model, proofs, property theorems), translators regenerating coq/Generated from /repo, "
                "OCaml-extracted model run against the implementation rebuilt from /repo's working tree",
            }
        ],
        "checks": checks,
        "not_applicable": na,
        "notes": "See DESIGN.md. Every check: regenerate coq/Generated from /repo, make the property's theorems, audit for axioms, rebuild the implementation from the working tree, "
        "run implementation vs extracted model and the property oracle; on any break search for a failing input.",
    }
    with open(os.path.join(VERIF, "MANIFEST.json"), "w") as f:
        json.dump(man, f, indent=1)
        f.write("\n")


if __name__ == "__main__":
    main()
