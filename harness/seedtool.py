"""Maintenance tool (not a registered check): verify a seeded faulty variant in its scratch worktree and
run the registered checks against it.

  python -m harness.seedtool verify <worktree> <k>      # tests pass + demo fails with patch, demo passes without
  python -m harness.seedtool import <worktree> <k> <id> # copy to /verif/seeded/<id>/
  python -m harness.seedtool run <id> <PROP> [<PROP>..] # git apply in /repo, run ./check PROP --tier quick, git checkout -- .
"""
import json
import os
import shutil
import subprocess
import sys

VERIF = os.path.dirname(os.path.dirname(os.path.abspath(__file__)))


def sh(cmd, cwd=None, env=None, timeout=3600):
    p = subprocess.run(cmd, cwd=cwd, env=env, stdout=subprocess.PIPE, stderr=subprocess.STDOUT, text=True, timeout=timeout, shell=isinstance(cmd, str))
    return p.returncode, p.stdout


def rebuild_pyx(wt, patch_text):
    mods = sorted({l.split("/")[-1][:-4] for l in patch_text.splitlines() if l.startswith("+++ ") and (l.endswith(".pyx"))})
    if any(l.startswith("+++ ") and l.endswith(".h") for l in patch_text.splitlines()):
        mods = sorted(set(mods) | {"qualtrim"})
    for m in mods:
        rc, out = sh(["/venv/bin/cythonize", "-i", "src/cutadapt/%s.pyx" % m], cwd=wt)
        c = os.path.join(wt, "src/cutadapt/%s.c" % m)
        if os.path.exists(c):
            os.remove(c)
        if rc != 0:
            print(out[-2000:])
            raise SystemExit("cythonize failed")
    return mods


def verify(wt, k):
    d = os.path.join(wt, "SEED", str(k))
    patch = open(os.path.join(d, "patch.diff")).read()
    env = dict(os.environ, PYTHONPATH=os.path.join(wt, "src"), PYTHONHASHSEED="0")
    rc, out = sh(["git", "status", "--porcelain", "--untracked-files=no"], cwd=wt)
    if out.strip():
        raise SystemExit("worktree not clean: " + out)
    rc0, out0 = sh(["/venv/bin/python", os.path.join(d, "demo.py")], cwd=d, env=env)
    print("demo on unchanged code: exit", rc0)
    rc, out = sh(["git", "apply", os.path.join(d, "patch.diff")], cwd=wt)
    if rc != 0:
        raise SystemExit("patch does not apply: " + out)
    try:
        mods = rebuild_pyx(wt, patch)
        rc1, out1 = sh(["/venv/bin/python", os.path.join(d, "demo.py")], cwd=d, env=env)
        print("demo with patch: exit", rc1, "|", out1.strip().splitlines()[-1][:200] if out1.strip() else "")
        rct, outt = sh(["/venv/bin/python", "-m", "pytest", "-q", "-p", "no:cacheprovider", "--timeout=900", "tests", "-x", "--deselect",
                        "tests/test_command.py::test_run_cutadapt_process"], cwd=wt, env=env)
        print("test suite with patch:", outt.strip().splitlines()[-1])
    finally:
        sh(["git", "checkout", "--", "."], cwd=wt)
        if mods:
            rebuild_pyx(wt, patch)
    ok = rc0 == 0 and rc1 != 0 and rct == 0
    print("VERIFIED" if ok else "NOT VERIFIED")
    return ok


def import_(wt, k, sid):
    d = os.path.join(wt, "SEED", str(k))
    dst = os.path.join(VERIF, "seeded", sid)
    os.makedirs(dst, exist_ok=True)
    for f in ("patch.diff", "demo.py", "meta.json"):
        shutil.copy(os.path.join(d, f), os.path.join(dst, f))
    print("imported", dst)


def run(sid, props):
    dst = os.path.join(VERIF, "seeded", sid)
    patch = os.path.join(dst, "patch.diff")
    rc, out = sh(["git", "-C", "/repo", "status", "--porcelain", "--untracked-files=no"])
    if out.strip():
        raise SystemExit("/repo not clean")
    rc, out = sh(["git", "-C", "/repo", "apply", patch])
    if rc != 0:
        raise SystemExit("patch does not apply to /repo: " + out)
    results = {}
    try:
        for p in props:
            rc, out = sh(["./check", p, "--tier", "quick"], cwd=VERIF)
            lines = [l for l in out.splitlines() if l.startswith("VIOLATION") or l.startswith(p + " tier")]
            results[p] = {"exit": rc, "lines": lines}
            print(p, "exit", rc, "|", " ; ".join(lines)[:300])
            if rc != 0:
                for l in lines:
                    if l.startswith("VIOLATION"):
                        path = l.split("replay=")[1].split()[0]
                        try:
                            doc = json.load(open(path))
                            print("    signature:", doc.get("signature"))
                        except Exception:
                            pass
    finally:
        sh(["git", "-C", "/repo", "checkout", "--", "."])
    return results


if __name__ == "__main__":
    cmd = sys.argv[1]
    if cmd == "verify":
        sys.exit(0 if verify(sys.argv[2], sys.argv[3]) else 1)
    elif cmd == "import":
        import_(sys.argv[2], sys.argv[3], sys.argv[4])
    elif cmd == "run":
        run(sys.argv[2], sys.argv[3:])
