"""Maintenance tool (not a registered check): apply a behaviour-preserving refactoring kept under /verif/refactorings/<id>/ to /repo,
run the quick check of its property, restore the tree.  The check is expected to stay quiet (exit 0).

  python -m harness.reftool run <id> [<PROP>]       # e.g. C02-2
"""
import os
import subprocess
import sys

VERIF = os.path.dirname(os.path.dirname(os.path.abspath(__file__)))


def sh(cmd, cwd=None):
    p = subprocess.run(cmd, cwd=cwd, stdout=subprocess.PIPE, stderr=subprocess.STDOUT, text=True)
    return p.returncode, p.stdout


def run(rid, prop=None):
    prop = prop or rid.split("-")[0]
    patch = os.path.join(VERIF, "refactorings", rid, "patch.diff")
    rc, out = sh(["git", "-C", "/repo", "status", "--porcelain", "--untracked-files=no"])
    if out.strip():
        raise SystemExit("/repo not clean")
    rc, out = sh(["git", "-C", "/repo", "apply", patch])
    if rc != 0:
        raise SystemExit("patch does not apply to /repo: " + out)
    try:
        rc, out = sh(["./check", prop, "--tier", "quick"], cwd=VERIF)
        lines = [l for l in out.splitlines() if l.startswith("VIOLATION") or l.startswith(prop + " tier")]
        print(rid, prop, "exit", rc, "|", " ; ".join(lines)[:300])
    finally:
        sh(["git", "-C", "/repo", "checkout", "--", "."])
    return rc


if __name__ == "__main__":
    if len(sys.argv) >= 3 and sys.argv[1] == "run":
        sys.exit(run(sys.argv[2], sys.argv[3] if len(sys.argv) > 3 else None))
    print(__doc__)
