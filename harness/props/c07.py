"""C07 -- the k-mer prefilter never changes which match is found.
Proof: coq/Properties/C07.v.  Correspondence: create_positions_and_kmers (as a set of
(kmer, start, stop)), KmerFinder.kmers_present, and match_to with the real finder vs the
extracted model.  Oracle (search only): match_to with the real finder vs with MockKmerFinder,
both on the implementation."""
import itertools

from .. import core, buildimpl
from .. import alignutil as U


def table_line(seq, ov, rate, back, front, internal, indels):
    return "kmertable %s|%d|%s|%d %d %d %d" % (U.enc(seq), ov, " ".join(map(str, U.thr_table(rate, len(seq)))), back, front, internal, indels)


def canon_model_table(s):
    out = set()
    if s.strip():
        for t in s.split(";"):
            k, st, sp = t.split(",")
            out.add(("".join(chr(int(x)) for x in k.split()), int(st), None if sp.strip() == "N" else int(sp)))
    return out


def canon_impl_table(tab):
    return {(k, st, sp) for st, sp, kmers in tab for k in kmers}


def enc_table(tab):
    return ";".join("%s,%d,%s" % (U.enc(k), st, "N" if sp is None else str(sp)) for st, sp, kmers in tab for k in kmers)


def enc_entries(tab):
    """the finder's entries as it holds them: start,stop,kmer/kmer/...;..."""
    return ";".join("%d,%s,%s" % (st, "N" if sp is None else str(sp), "/".join(U.enc(k) for k in kmers)) for st, sp, kmers in tab)


def window_oob(tab, n):
    """does some entry's window extend past a read of length n (where the compiled code reads out of bounds)"""
    for st, sp, _ in tab:
        if sp is not None and sp > n and not (st >= 0 and st > n):
            return True
    return False


def gen_specs(ctx, count):
    rng = ctx.rng
    out = []
    for _ in range(count):
        spec = U.rand_spec(rng, maxlen=rng.choice([6, 8, 12, 16, 24]))
        if rng.random() < 0.5:
            spec.rate = rng.choice([0.1, 0.15, 0.2, 0.25, 0.3, 0.34, 0.4])
        if rng.random() < 0.6:
            spec.indels = True
        if rng.random() < 0.12:
            # a tolerance given as an absolute number of errors becomes the rate k/m; for some lengths the product rate * m falls just
            # below k in floating point (1/49 * 49 < 1): aligner and k-mer heuristic must then agree on the SAME integer part
            m = rng.choice([23, 41, 46, 47, 49, 49, 55, 57, 61, 63, rng.randint(20, 64), rng.randint(41, 60)])
            spec.seq = U.rand_seq(rng, m, "ACGT")
            spec.rate = rng.choice([1, 2, 3, 4, 5, 5, 6, 7]) / m
            spec.adapter_wildcards = False
            spec.min_overlap = rng.choice([3, 10, m])
        elif rng.random() < 0.04:
            # adapters longer than one machine word of the k-mer finder (64) with few allowed errors: k-mers of more than 32 characters,
            # which cannot share a word
            m = rng.randint(70, 120)
            spec.seq = U.rand_seq(rng, m, "ACGT")
            # (rate 0 or one error on more than 128 characters: some k-mer is longer than a machine word, the finder refuses and the
            # adapter is searched without prefilter)
            spec.rate = rng.choice([0, 1, 2, 2, 3]) / m
            spec.adapter_wildcards = False
            spec.min_overlap = rng.choice([3, 20])
        out.append(spec)
    return out


def chunk_damaged_copies(rng, seq, k):
    """copies of seq with one substitution in every one of the k+1 k-mer chunks but one (each chunk in turn is the intact one)"""
    chunks = k + 1
    size, rem = divmod(len(seq), chunks)
    bounds, pos = [], 0
    for i in range(chunks):
        ln = size + (1 if i < rem else 0)
        bounds.append((pos, pos + ln))
        pos += ln
    out = []
    for intact in range(chunks):
        s = list(seq)
        for i, (a, b) in enumerate(bounds):
            if i != intact and b > a:
                p_ = rng.randrange(a, b)
                s[p_] = rng.choice([c for c in "ACGT" if c != s[p_]])
        out.append("".join(s))
    return out


def reads_for(rng, spec, seq, count):
    reads = []
    m = len(seq)
    if m > 64:
        # the occurrence sits far from both read ends, so that only the k-mers of the whole adapter can let the read through
        for cp in chunk_damaged_copies(rng, seq, int(spec.rate * m)):
            reads.append(U.rand_seq(rng, rng.randint(45, 70), "ACGT") + cp + U.rand_seq(rng, rng.randint(45, 70), "ACGT"))
    elif m >= 20 and spec.rate * m >= 1 - 1e-9 and all(c in "ACGT" for c in seq):
        # a full-length copy with exactly the allowed number of errors, one in every k-mer chunk but one, where the adapter type wants it
        k = int(spec.rate * m + 1e-9)
        for cp in chunk_damaged_copies(rng, seq, k - 1 if k * (1.0 / spec.rate) > m + 1e-9 else k)[:4] + chunk_damaged_copies(rng, seq, k)[:4]:
            fill = U.rand_seq(rng, rng.randint(8, 20), "ACGT")
            if spec.typ in ("Suffix", "NonInternalBack"):
                reads.append(fill + cp)
            elif spec.typ in ("Prefix", "NonInternalFront"):
                reads.append(cp + fill)
            else:
                reads.append(fill + cp + U.rand_seq(rng, rng.randint(8, 20), "ACGT"))
    for _ in range(count):
        mode = rng.random()
        if mode < 0.5:
            reads.append(U.rand_read(rng, spec, seq, maxn=30))
        elif mode < 0.75:
            # planted copy with indels right at the window edge (anchored / non-internal / partial)
            alpha = "ACGT"
            core_ = U.mutate(rng, seq, rng.choice([1, 1, 2]), alpha, "id" if spec.indels else "s")
            cut = rng.randint(0, max(0, m // 2))
            if spec.typ in ("Back", "NonInternalBack", "Suffix", "RightmostFront"):
                r = U.rand_seq(rng, rng.randint(0, 6), alpha) + core_[: len(core_) - (cut if spec.typ != "Suffix" else 0)]
            else:
                r = core_[(cut if spec.typ != "Prefix" else 0):] + U.rand_seq(rng, rng.randint(0, 6), alpha)
            reads.append(r)
        else:
            # read lying inside the adapter (anywhere adapters), or shorter than the adapter
            a = rng.randint(0, m)
            b = rng.randint(a, m)
            reads.append(U.mutate(rng, seq[a:b], rng.choice([0, 0, 1]), "ACGT"))
    # characters that are no letters (".", "-", "*", "?", digits: unknown bases in some pipelines): where the adapter has a wildcard
    # character the read gets one of them -- the aligner and the k-mer finder must keep agreeing on every ASCII character
    if any(c not in "ACGT" for c in seq.upper()) and rng.random() < 0.6:
        extra = []
        for _ in range(3):
            core_ = "".join((rng.choice(".-*?7") if (c.upper() not in "ACGT" and rng.random() < 0.7) else c) for c in seq)
            if rng.random() < 0.5:
                core_ = U.mutate(rng, core_, 1, "ACGT", "s")
            extra.append(U.rand_seq(rng, rng.randint(0, 5), "ACGT") + core_ + U.rand_seq(rng, rng.randint(0, 5), "ACGT"))
        reads += extra
    return reads


def exhaustive(ctx):
    la, lr = ctx.size(3, 4), ctx.size(5, 6)
    specs = []
    for typ in U.TYPES:
        for m in range(1, la + 1):
            for t in itertools.product("AC", repeat=m):
                for rate, indels in ((0.0, True), (0.34, True), (0.5, True), (0.5, False)):
                    for ov in (1, m):
                        specs.append(U.AdSpec(typ, "".join(t), rate, ov, False, True, indels, False))
    reads = ["".join(t) for n in range(0, lr + 1) for t in itertools.product("AC", repeat=n)]
    return specs, reads


def check(ctx):
    ctx.coq()
    ctx.model()
    buildimpl.activate()
    from cutadapt.kmer_heuristic import create_positions_and_kmers

    rng = ctx.rng
    model_ok = not any("extraction" in b for b in ctx.broken)
    dist = {}
    # ---- 1. the search tables
    tcases = []
    for _ in range(ctx.size(1500, 20000)):
        m = rng.choice([1, 2, 3, 4, 5, 6, 7, 8, 10, 12, 16, 20, 33])
        seq = U.rand_seq(rng, m, rng.choice(["AC", "ACGT", "ACGTN"]))
        rate = rng.choice(U.RATES)
        tcases.append((seq, rng.randint(1, m), rate, rng.random() < 0.6, rng.random() < 0.6, rng.random() < 0.7, rng.random() < 0.5))
    # tolerances given as absolute error counts (rate k/m) and a few two-digit rates on longer adapters, anchored / non-internal forms
    # (no internal search set): the tier boundaries of the overlap search sets depend on the integer part of length * rate
    sweep = [(m, k / m) for m in range(20, 65) for k in range(1, 9) if ctx.size(m % 2 == 1 or k in (3, 5, 6, 7), True)]
    sweep += [(m, r) for m in range(40, 61, ctx.size(5, 1)) for r in (0.22, 0.15, 0.3, 0.12)]
    for m, rate in sweep:
        seq = U.rand_seq(rng, m, "ACGT")
        back = rng.random() < 0.5
        tcases.append((seq, rng.choice([1, 3, m]), rate, back, not back, False, True))
    try:
        impl_t = [canon_impl_table(create_positions_and_kmers(*c[:6], indels=c[6])) for c in tcases]
        mod_t = [canon_model_table(x) for x in core.model_run([table_line(*c) for c in tcases])] if model_ok else [None] * len(tcases)
        bad = core.diff_cases(ctx, "create_positions_and_kmers", tcases, impl_t, mod_t, None)
        for c in tcases:
            ctx.count(("table",) + c, True)
        dist["tables"] = len(tcases)
        for i in bad[:10]:
            ctx.violation("correspondence:create_positions_and_kmers", {"case": list(tcases[i]), "impl": sorted(map(str, impl_t[i])), "model": sorted(map(str, mod_t[i] or []))},
                          found_input=False)
    except Exception as e:  # the component no longer has the modelled interface: broken correspondence, the oracle below still runs
        ctx.broken.append("correspondence:create_positions_and_kmers crashed: %s: %s" % (type(e).__name__, e))
    # ---- 2. kmers_present and match_to with the real prefilter; oracle: real vs mock finder
    import json, os
    groups = []
    cpath = os.path.join(core.VERIF, "corpus", "C07.json")
    if os.path.exists(cpath):  # minimised past failures run first
        for e in json.load(open(cpath)):
            groups.append((U.AdSpec.from_json(e["adapter"]), [e["read"]]))
    ctx.notes["corpus_cases"] = len(groups)
    groups += [(s, None) for s in gen_specs(ctx, ctx.size(1200, 20000))]
    ex_specs, ex_reads = exhaustive(ctx)
    if ctx.quick:
        ex_specs = [s for i, s in enumerate(ex_specs) if i % 3 == 0]
    groups += [(s, ex_reads) for s in ex_specs]
    kp_lines, kp_impl, kp_meta = [], [], []
    kp2_lines = []
    mt_lines, mt_impl, mt_meta = [], [], []
    ncorpus = ctx.notes.get("corpus_cases", 0)
    for gi, (spec, reads) in enumerate(groups):
        twin_built = False
        try:
            if gi < ncorpus or rng.random() < 0.3:
                twin_built = True
                # the same adapter with the opposite indel setting is built first in this process: whatever is kept between
                # adapters (caches of finders, tables) must not carry over what depends on that setting
                twin = U.AdSpec.from_json(dict(spec.to_json(), indels=not spec.indels))
                try:
                    twin.build()
                except Exception:
                    pass
            ad = spec.build()
            mock = spec.build(mock_prefilter=True)
        except Exception:
            continue
        seq = ad.sequence
        if reads is None:
            reads = reads_for(rng, spec, seq, 10)
        # the adapter as a worker process gets it under the 'spawn' start method: through pickle (every fifth adapter)
        pickled = None
        if len(mt_meta) % 5 == 0:
            try:
                import pickle
                pickled = pickle.loads(pickle.dumps(ad))
            except Exception as e:
                ctx.violation("adapter cannot be pickled: %s" % type(e).__name__, {"adapter": spec.to_json(), "why": "%s: %s" % (type(e).__name__, e)})
        kf = getattr(ad.kmer_finder, "kmer_finder", ad.kmer_finder)  # unwrap ShortReadKmerFinder
        has_finder = hasattr(kf, "positions_and_kmers")
        if pickled is not None and has_finder:
            # the pickled finder answers like the original one: probe with every k-mer of the table itself (wildcard characters
            # of the adapter replaced by a concrete base), alone and inside a longer read
            pkf = getattr(pickled.kmer_finder, "kmer_finder", pickled.kmer_finder)
            probes = []
            for kmer in [k_ for _st, _sp, ks_ in list(kf.positions_and_kmers)[:4] for k_ in list(ks_)[:3]]:
                conc = "".join(c if c in "ACGT" else rng.choice("ACGT") for c in kmer.upper())
                probes += [conc, "TT" + conc + "GG", conc.replace("A", "N", 1)]
            for pr in probes:
                if window_oob(kf.positions_and_kmers, len(pr)):
                    continue   # a window reaching past the read end makes the compiled code read beyond the buffer (F7c): not comparable
                if pr and kf.kmers_present(pr) != pkf.kmers_present(pr):
                    ctx.violation("pickled k-mer finder answers differently: %s" % spec.typ,
                                  {"adapter": spec.to_json(), "read": pr, "original": kf.kmers_present(pr), "after_pickle": pkf.kmers_present(pr), "pickled": True})
                    break
        for r in reads:
            q = r[::-1] if spec.typ == "RightmostFront" else r
            real = ad.match_to(r)
            nofilter = mock.match_to(r)
            ctx.count((spec.key(), r), nofilter is not None)
            key = "%s/%s" % (spec.typ, "match" if nofilter is not None else "none")
            dist[key] = dist.get(key, 0) + 1
            if U.match_tuple(real) != U.match_tuple(nofilter):
                cls = "%s indels=%s read_shorter=%s" % (spec.typ, ad.indels, len(r) < len(seq))
                ctx.violation("prefilter changes the result: " + cls,
                              {"adapter": spec.to_json(), "read": r, "with_prefilter": U.match_tuple(real), "without": U.match_tuple(nofilter),
                               "twin_first": twin_built, "reproduce": "cd /verif && ./check replay <this file>"})
            if pickled is not None and U.match_tuple(pickled.match_to(r)) != U.match_tuple(nofilter):
                ctx.violation("prefilter of a pickled adapter changes the result: %s" % spec.typ,
                              {"adapter": spec.to_json(), "read": r, "with_prefilter_after_pickle": U.match_tuple(pickled.match_to(r)), "without": U.match_tuple(nofilter),
                               "pickled": True})
                dist["pickled adapters"] = dist.get("pickled adapters", 0)
            if pickled is not None:
                dist["pickled adapters"] = dist.get("pickled adapters", 0) + 1
            mt_impl.append(U.match_tuple(real))
            mt_lines.append(U.model_line_matchto(ad, spec, r).replace("matchto ", "matchtopf ", 1))
            mt_meta.append((spec, r))
            if has_finder:
                tab = kf.positions_and_kmers
                kp_impl.append((kf.kmers_present(q), window_oob(tab, len(q))))
                kp_lines.append("kpresent %d %d|%s|%s" % (int(ad.adapter_wildcards), int(ad.read_wildcards), enc_table(tab), U.enc(q)))
                kp_meta.append((spec, r))
                kp2_lines.append("kpresentsa %d %d|%s|%s" % (int(ad.adapter_wildcards), int(ad.read_wildcards), enc_entries(tab), U.enc(q)))
    if model_ok:
        # the bit-level model (Model/ShiftAnd.v: packed words, shift / or / and) against the compiled finder, same cases
        kp2_mod = core.model_run(kp2_lines)
        nbad2 = 0
        for i, ((iv, oob), mv) in enumerate(zip(kp_impl, kp2_mod)):
            mvb = mv == "1"
            if iv != mvb and not (iv and not mvb and oob):
                nbad2 += 1
                if nbad2 <= 10:
                    ctx.violation("correspondence:kmers_present (shift-and model)", {"adapter": kp_meta[i][0].to_json(), "read": kp_meta[i][1], "impl": iv, "model": mv},
                                  found_input=False)
        ctx.notes.setdefault("correspondence", {})["kmers_present[shift-and model]"] = {"cases": len(kp2_lines), "disagreements": nbad2}
        kp_mod = core.model_run(kp_lines)
        nbad = 0
        for i, ((iv, oob), mv) in enumerate(zip(kp_impl, kp_mod)):
            mvb = mv == "1"
            if iv != mvb and not (iv and not mvb and oob):
                nbad += 1
                if nbad <= 10:
                    ctx.violation("correspondence:kmers_present", {"adapter": kp_meta[i][0].to_json(), "read": kp_meta[i][1], "impl": iv, "model": mv},
                                  found_input=False)
        ctx.notes.setdefault("correspondence", {})["kmers_present"] = {
            "cases": len(kp_lines), "disagreements": nbad,
            "windows_past_read_end": sum(1 for _, o in kp_impl if o),
        }
        mt_mod = core.model_run(mt_lines)
        bad2 = core.diff_cases(ctx, "match_to[with prefilter]", mt_meta, mt_impl, mt_mod, None)
        for i in bad2[:10]:
            ctx.violation("correspondence:match_to_prefiltered", {"adapter": mt_meta[i][0].to_json(), "read": mt_meta[i][1], "impl": mt_impl[i], "model": mt_mod[i]},
                          found_input=False)
    ctx.coverage["rule"] = (
        "search tables for random adapters (length 1..33) and flag triples; kmers_present and match_to (real finder) for random adapters of all eight classes "
        "with reads carrying planted copies (indels at the window edge, partial overlaps, reads inside the adapter) plus exhaustive adapters over {A,C} "
        "up to length %d x reads over {A,C} up to length %d; non-trivial = the unfiltered aligner reports a match" % (ctx.size(3, 4), ctx.size(5, 6))
    )
    ctx.coverage["input_distribution"] = dist
    for i in range(0, len(mt_meta), max(1, len(mt_meta) // 5)):
        ctx.sample({"adapter": mt_meta[i][0].to_json(), "read": mt_meta[i][1], "impl": mt_impl[i]})
    ctx.coverage["search_note"] = "oracle_C07 (match_to with the real finder vs MockKmerFinder on the implementation) was run on all %d cases" % len(mt_meta)


def replay(doc):
    r = doc["replay"]
    if "adapter" not in r:
        print(r)
        return 0
    spec = U.AdSpec.from_json(r["adapter"])
    if r.get("twin_first"):
        # the run built the same adapter with the opposite indel setting first (state kept between adapters)
        try:
            U.AdSpec.from_json(dict(spec.to_json(), indels=not spec.indels)).build()
        except Exception:
            pass
    a, b = spec.build().match_to(r["read"]), spec.build(mock_prefilter=True).match_to(r["read"])
    print("adapter", r["adapter"], "read", r["read"], "with prefilter:", U.match_tuple(a), "without:", U.match_tuple(b))
    return 1 if U.match_tuple(a) != U.match_tuple(b) else 0
