"""C19 -- results do not depend on compression, file layout or how a format is requested.
Proof: coq/Properties/C19.v (the output-format decision as a function of the output name and the presence of
qualities only; every compression suffix irrelevant; the extension decides; fallback to the input format;
interleave/deinterleave round trip).
Correspondence: (a) the extracted Format model vs the writer class that OutputFiles.open_record_writer really creates
(direct and proxied = multi-core) for generated file names; (b) a container x layout x name x cores matrix on the
rebuilt implementation: every variant's decompressed records must equal those of the plain / two-file / one-core run,
and every output file must have the format its name asks for."""
import bz2
import copy
import gzip
import io
import json
import lzma
import os
import shutil
import sys

from .. import core, buildimpl
from .. import sysutil as S
from .. import pairutil as P
from .. import runnerutil as R
from .. import alignutil as U

COMP = ["", ".gz", ".bz2", ".xz", ".zst"]
FASTA_EXT = [".fasta", ".fa", ".fna", ".csfasta", ".csfa"]
FASTQ_EXT = [".fastq", ".fq"]


def zstd():
    import backports.zstd as z

    return z


def compress(data, comp, rng=None):
    if comp == "":
        return data
    if comp == ".gz":
        return gzip.compress(data, mtime=0)
    if comp == ".gz-multi":
        # multi-member gzip: split at a line boundary
        lines = data.split(b"\n")
        k = len(lines) // 2
        k -= k % 4
        a, b = b"\n".join(lines[:k]) + (b"\n" if k else b""), b"\n".join(lines[k:])
        return gzip.compress(a, mtime=0) + gzip.compress(b, mtime=0)
    if comp == ".bz2":
        return bz2.compress(data)
    if comp == ".xz":
        return lzma.compress(data)
    if comp == ".zst":
        return zstd().compress(data)
    raise ValueError(comp)


def decompress(name, data):
    if data == b"":
        return b""  # a zero-byte container (the zstd writer produces one when nothing was written) holds no records
    if name.endswith(".zst"):
        try:
            return zstd().decompress(data)
        except Exception as e:  # noqa
            return b"UNDECODABLE " + type(e).__name__.encode()
    return R.decompress(name, data)


def strip_comp(name):
    for c in COMP[1:]:
        if name.endswith(c):
            return name[: -len(c)]
    return name


def expected_format(name, has_qual):
    """our own reading of the documentation: the extension before any compression suffix decides, else the input format"""
    base = strip_comp(name.lower())
    ext = os.path.splitext(base)[1]
    if ext in FASTA_EXT:
        return "fasta"
    if ext in FASTQ_EXT:
        return "fastq" if has_qual else "fasta"
    return "fastq" if has_qual else "fasta"


def parse_records(data):
    """-> (format, [(name, seq, qual|None)])"""
    text = data.decode("ascii", errors="replace")
    if text == "":
        return None, []
    lines = text.split("\n")
    if lines[-1] == "":
        lines.pop()
    recs = []
    if text[0] == ">":
        name, seq = None, ""
        for l in lines:
            if l.startswith(">"):
                if name is not None:
                    recs.append((name, seq, None))
                name, seq = l[1:], ""
            else:
                seq += l
        recs.append((name, seq, None))
        return "fasta", recs
    if text[0] == "@":
        if len(lines) % 4:
            return "broken", []
        for i in range(0, len(lines), 4):
            recs.append((lines[i][1:], lines[i + 1], lines[i + 3]))
        return "fastq", recs
    return "broken", []


# ---------------------------------------------------------------- part (a): the format decision
def name_cases(rng, n):
    stems = ["out", "reads.trimmed", "a.b.c", "x_sequence", ".hidden", "sub.d/out", "sub.d/.h", "OUT", "r1.fastq", "r1.fasta", "r.fq.tmp", "noext", "s_1_sequence", "..", "a."]
    exts = FASTA_EXT + FASTQ_EXT + [".txt", ".FASTA", ".Fq", ".fastq.txt", ".fasta.fq", ".fq.fasta", "", ".gz", ".fas", ".fastqq", ".seq"]
    comps = COMP + [".GZ", ".gz.gz", ".bz2.gz", ".zstd", ".gzip"]
    cases = []
    for stem in stems:
        for ext in exts:
            for comp in comps:
                cases.append(stem + ext + comp)
    rng.shuffle(cases)
    cases = [c for c in cases if os.path.basename(c) not in ("", ".", "..")]
    return cases[:n]


def impl_writer_formats(d, names):
    """for each name and has_qual in (True, False): the class of writer the implementation creates, directly and proxied"""
    import cutadapt.files as F

    out = []
    os.makedirs(os.path.join(d, "sub.d"), exist_ok=True)
    for name in names:
        row = []
        fn = getattr(F, "detect_format_from_path", None)
        det = fn(os.path.join(d, name)) if fn is not None else "function-absent"
        for q in (True, False):
            for proxied in (False, True):
                of = F.OutputFiles(proxied=proxied, qualities=q, interleaved=False, file_opener=F.FileOpener(compression_level=1, threads=0))
                try:
                    w = of.open_record_writer(os.path.join(d, name))
                    inner = w._writer if proxied else w
                    cls = type(inner).__name__.lower()
                    row.append("fasta" if "fasta" in cls else "fastq" if "fastq" in cls else cls)
                except Exception as e:  # noqa
                    row.append("EXC " + type(e).__name__)
                finally:
                    try:
                        of.close()
                    except Exception:  # noqa
                        pass
        # --fasta is for standard output only: a named file is written as its name says (or as the input format) all the same
        for proxied in (False, True):
            of = F.OutputFiles(proxied=proxied, qualities=True, interleaved=False, file_opener=F.FileOpener(compression_level=1, threads=0))
            try:
                w = of.open_record_writer(os.path.join(d, name), force_fasta=True)
                inner = w._writer if proxied else w
                cls = type(inner).__name__.lower()
                row.append("fasta" if "fasta" in cls else "fastq" if "fastq" in cls else cls)
            except Exception as e:  # noqa
                row.append("EXC " + type(e).__name__)
            finally:
                try:
                    of.close()
                except Exception:  # noqa
                    pass
        out.append((det or "none", row))
    return out


def part_format(ctx, d, dist):
    names = name_cases(ctx.rng, ctx.size(400, 4000))
    impl = impl_writer_formats(d, names)
    lines = []
    for nm in names:
        codes = " ".join(str(ord(c)) for c in nm.lower())
        lines.append("format %s|1" % codes)
        lines.append("format %s|0" % codes)
    mo = core.model_run(lines)
    ndis = 0
    for k, nm in enumerate(names):
        det_m, fq_m = mo[2 * k].split()
        _, fa_m = mo[2 * k + 1].split()
        det_i, row = impl[k]
        exp_row = [fq_m, fq_m, fa_m, fa_m, fq_m, fq_m]
        ctx.count(("name", nm), det_i != "none")
        dist["name:" + det_i] = dist.get("name:" + det_i, 0) + 1
        if det_i != det_m or row != exp_row:
            ndis += 1
            # is the property itself violated on this name?  (own reading of the documentation)
            own = [expected_format(nm, True)] * 2 + [expected_format(nm, False)] * 2 + [expected_format(nm, True)] * 2
            found = row != own
            ctx.violation("output format for a file name: model %s/%s implementation %s/%s" % (det_m, exp_row, det_i, row),
                          {"name": nm, "model": [det_m] + exp_row, "implementation": [det_i] + row, "documented": own, "kind": "format-name"}, found)
    ctx.notes.setdefault("correspondence", {})["format decision"] = {"cases": len(names), "disagreements": ndis}


# ---------------------------------------------------------------- part (b): the matrix
def run_main(argv, d, cores, buffer_size=None, start_method=None):
    """in-process for one core, subprocess for several"""
    if cores > 1:
        res = R.run_cli(argv, d, cores, buffer_size=buffer_size, trace=False, start_method=start_method)
        return res["exit"], res["stderr"][-300:]
    import logging
    import cutadapt.cli as cli

    S.reset_impl_state()
    if not logging.root.handlers:
        logging.root.addHandler(logging.NullHandler())
    old = sys.stdout, sys.stderr
    sys.stdout, sys.stderr = io.StringIO(), io.StringIO()
    code, err = 0, ""
    try:
        cli.main(["-j", "1"] + argv)
    except SystemExit as e:
        code = e.code if isinstance(e.code, int) else 1
    except Exception as e:  # noqa
        code, err = -1, "%s: %s" % (type(e).__name__, e)
    finally:
        err = err or sys.stderr.getvalue()[-300:]
        sys.stdout, sys.stderr = old
    return code, err


def clear(d):
    for f in os.listdir(d):
        p = os.path.join(d, f)
        if os.path.isfile(p):
            os.remove(p)


def run_variant(case, d, v):
    """v: dict(in_comp, out_comp, cores, fasta_in, fasta_out, inter_in, inter_out).  -> dict(exit, err, files={stem: (fmt, records)})"""
    clear(d)
    cfg = copy.deepcopy(case["cfg"])
    base = cfg.base if case["paired"] else cfg
    if v.get("fasta_in"):
        base.fasta = True
    ext = base.ext()
    fasta = base.fasta
    recs = case["records"]

    def ser(rs):
        return "".join((">%s\n%s\n" % (n, s)) if fasta else ("@%s\n%s\n+\n%s\n" % (n, s, q)) for n, s, q in rs).encode()

    if v.get("gt_names"):
        # header comments containing '>' and '@' (on the first mate / on every other read only)
        tag = lambda n, k: n + ((" " if " " not in n else "") + "len>%d@x" % k)
        if case["paired"]:
            recs = [((tag(a[0], i), a[1], a[2]), b) for i, (a, b) in enumerate(recs)]
        else:
            recs = [((tag(r[0], i), r[1], r[2]) if i % 2 == 0 else r) for i, r in enumerate(recs)]

    ic = v.get("in_comp", "")
    isuf = ".gz" if ic == ".gz-multi" else ic
    if case["paired"]:
        cfg.interleaved_in = bool(v.get("inter_in"))
        cfg.interleaved_out = bool(v.get("inter_out"))
        cfg.redirect_two = bool(v.get("redirect_two"))
        if cfg.interleaved_in:
            inputs = {"in.inter." + ext: ser([r for pr in recs for r in pr])}
        else:
            inputs = {"in.1." + ext: ser([pr[0] for pr in recs]), "in.2." + ext: ser([pr[1] for pr in recs])}
        argv = cfg.argv(d)
    else:
        inputs = {"in." + ext: ser(recs)}
        argv = cfg.argv(d)
    for nm, data in inputs.items():
        with open(os.path.join(d, nm + isuf), "wb") as f:
            f.write(compress(data, ic))
    oc = v.get("out_comp", "")
    new = []
    for a in argv:
        bn = os.path.basename(a)
        if a.startswith(d) and bn.startswith("in."):
            a = a + isuf
        elif a.startswith(d) and bn.endswith("." + ext):
            is_main = bn.startswith("out.")
            if v.get("fasta_out") and not fasta and (is_main or not v.get("mixed_out")):
                a = a[: -len(ext)] + "fasta"
            elif v.get("mixed_out") and not fasta and not is_main and not v.get("fasta_out"):
                a = a[: -len(ext)] + "fasta"   # redirect files as FASTA next to a FASTQ main output (and the other way round above)
            a = a + oc
        new.append(a)
    stdout_data = None
    if v.get("fasta_flag"):
        # --fasta asks for FASTA on standard output; output files with a FASTQ name are still written as their name says
        new = ["--fasta"] + new
    if v.get("stdout_fasta"):
        # the trimmed reads go to standard output (no -o) and --fasta asks for FASTA there -- with any number of cores
        k = new.index("-o")
        new = ["--fasta"] + new[:k] + new[k + 2:]
        res_ = R.run_cli(new, d, v.get("cores", 1), buffer_size=v.get("buffer_size"), trace=False, start_method=("spawn" if v.get("spawn") and v.get("cores", 1) > 1 else None))
        code, err = (res_["exit"] if not res_["timed_out"] else -9), res_["stderr"][-300:]
        stdout_data = res_["stdout"].encode("ascii", errors="replace")
    else:
        code, err = run_main(new, d, v.get("cores", 1), v.get("buffer_size"), start_method=("spawn" if v.get("spawn") else None))
    out = {"exit": code, "err": err, "files": {}, "argv": [x.replace(d, "$D") for x in new]}
    if code != 0:
        return out
    if stdout_data is not None:
        fmt, rs = parse_records(stdout_data)
        out["files"]["out"] = {"name": "out.fasta", "fmt": fmt, "records": rs}
    for f in sorted(os.listdir(d)):
        if f.startswith("in.") or f.startswith("side.") or f in ("report.json", "info.tsv", "trace.log") or os.path.isdir(os.path.join(d, f)):
            continue
        with open(os.path.join(d, f), "rb") as fh:
            data = decompress(f, fh.read())
        fmt, rs = parse_records(data)
        stem = os.path.splitext(strip_comp(f))[0]
        out["files"][stem] = {"name": f, "fmt": fmt, "records": rs}
    return out


def canon(files, paired, with_qual):
    """stem -> list of records (single) / list of pairs (paired), layout-independent"""
    strip = (lambda r: (r[0], r[1], r[2] if with_qual else None))
    if not paired:
        return {k: [strip(r) for r in v["records"]] for k, v in files.items()}
    out = {}
    for stem, v in files.items():
        rs = [strip(r) for r in v["records"]]
        if stem.endswith(".inter"):
            out[stem[:-6]] = [(rs[i], rs[i + 1]) for i in range(0, len(rs) - 1, 2)] + ([("ODD", rs[-1])] if len(rs) % 2 else [])
        elif stem.endswith(".1"):
            other = files.get(stem[:-2] + ".2")
            if other is None:
                out[stem[:-2]] = [(rs[i], rs[i + 1]) for i in range(0, len(rs) - 1, 2)] + ([("ODD", rs[-1])] if len(rs) % 2 else [])
            else:
                os_ = [strip(r) for r in other["records"]]
                out[stem[:-2]] = list(zip(rs, os_)) if len(rs) == len(os_) else [("LENGTHS", len(rs), len(os_))]
        elif stem.endswith(".2"):
            continue
        else:
            out[stem] = rs
    return {k: v for k, v in out.items()}


def quality_free(case):
    b = case["cfg"].base if case["paired"] else case["cfg"]
    if b.qcut is not None or b.nextseq is not None or b.max_ee is not None or b.max_aer is not None or b.zero_cap:
        return False
    if case["paired"] and case["cfg"].qcut2 is not None:
        return False
    return True


def rand_variant(rng, case, k):
    v = {"in_comp": rng.choice(COMP + [".gz-multi"]), "out_comp": rng.choice(COMP), "cores": 1}
    b = case["cfg"].base if case["paired"] else case["cfg"]
    if case["paired"]:
        v["inter_in"] = rng.random() < 0.4
        v["inter_out"] = rng.random() < 0.3 and not (b.demux or case["cfg"].combinatorial)
        v["redirect_two"] = v["inter_out"] and rng.random() < 0.6   # interleaved main output, redirect files still as two files
    if not b.fasta:
        r = rng.random()
        if r < 0.2 and quality_free(case):
            v["fasta_in"] = True
        elif r < 0.45:
            v["fasta_out"] = True
    if not b.fasta and rng.random() < 0.3 and (b.too_short_output or b.too_long_output or b.untrimmed_output):
        v["mixed_out"] = True
    if rng.random() < 0.2 and not b.strip_suffix and b.rename is None:
        v["gt_names"] = True
    if not case["paired"] and not b.demux and not b.fasta and rng.random() < 0.12:
        v["stdout_fasta"] = True
        v["cores"] = rng.choice([1, 2, 3])
        for kk in ("fasta_out", "mixed_out", "fasta_in"):
            v.pop(kk, None)
    if not b.fasta and not any(v.get(kk) for kk in ("stdout_fasta", "fasta_out", "mixed_out", "fasta_in")) and rng.random() < 0.12:
        v["fasta_flag"] = True
    if k == 0:
        v["cores"] = 2
        v["spawn"] = rng.random() < 0.35   # workers get the pipeline through pickle
        if rng.random() < 0.5:
            v["buffer_size"] = rng.choice([300, 512, 1000])
        if case["paired"] and not b.fasta and quality_free(case) and rng.random() < 0.5 and not b.strip_suffix:
            # the layout most at risk on several cores: interleaved FASTA, small chunks, '>' inside header comments
            v.update(fasta_in=True, fasta_out=False, inter_in=True, gt_names=True, buffer_size=rng.choice([300, 512, 1000]))
    return v


def part_matrix(ctx, d, dist):
    rng = ctx.rng
    n = ctx.size(45, 500)
    nvar = 4 if ctx.quick else 7
    for c in range(n):
        paired = rng.random() < 0.35
        if paired:
            cfg, recs = P.rand_pcase(rng, npairs=rng.randint(4, 14))
            cfg.interleaved_in = cfg.interleaved_out = False
        else:
            cfg, recs = S.rand_case(rng, nreads=rng.randint(4, 16))
            cfg.info_file = False
        case = {"paired": paired, "cfg": cfg, "records": recs}
        b = cfg.base if paired else cfg
        ref = run_variant(case, d, {})
        if ref["exit"] != 0:
            dist["reference rejected"] = dist.get("reference rejected", 0) + 1
            continue
        has_qual = not b.fasta
        ref_c = canon(ref["files"], paired, True)
        for k in range(nvar):
            v = rand_variant(rng, case, k)
            if v.get("gt_names"):
                ref_v = run_variant(case, d, {"gt_names": True})
                if ref_v["exit"] != 0:
                    continue
            else:
                ref_v = ref
            res = run_variant(case, d, v)
            key = (json.dumps(cfg.to_json(), sort_keys=True), json.dumps(v, sort_keys=True))
            ctx.count(key, any(len(x["records"]) for x in ref["files"].values()))
            for kk in ("in_comp", "out_comp"):
                dist["%s=%s" % (kk, v.get(kk) or "plain")] = dist.get("%s=%s" % (kk, v.get(kk) or "plain"), 0) + 1
            for kk in ("fasta_in", "fasta_out", "inter_in", "inter_out", "redirect_two", "mixed_out", "gt_names", "buffer_size", "spawn", "stdout_fasta", "fasta_flag"):
                if v.get(kk):
                    dist[kk] = dist.get(kk, 0) + 1
            dist["cores=%d" % v["cores"]] = dist.get("cores=%d" % v["cores"], 0) + 1
            desc = {"paired": paired, "cfg": cfg.to_json(), "records": recs, "variant": v, "argv": res["argv"], "kind": "matrix"}
            if res["exit"] != 0 and "does not fit into buffer" in (res["err"] or ""):
                # --buffer-size smaller than one record: the documented refusal, not a difference in results
                dist["buffer too small (skipped)"] = dist.get("buffer too small (skipped)", 0) + 1
                continue
            if res["exit"] != 0:
                ctx.violation("variant fails where the plain run succeeds: " + " ".join("%s" % k2 for k2 in sorted(v) if v[k2] not in ("", False, 1)),
                              {"what": "exit %r: %s" % (res["exit"], res["err"]), **desc}, True)
                continue
            probs = []
            qual_cmp = has_qual and not v.get("fasta_in") and not v.get("fasta_out") and not v.get("mixed_out") and not v.get("stdout_fasta")
            a = canon(ref_v["files"], paired, qual_cmp)
            bb = canon(res["files"], paired, qual_cmp)
            if a != bb:
                stems = [s for s in sorted(set(a) | set(bb)) if a.get(s) != bb.get(s)]
                probs.append("records differ in " + ",".join(stems))
            if v.get("redirect_two"):
                # a redirect file that was asked for as two files must be two files, whatever the layout of the main output
                for stem in res["files"]:
                    if stem.endswith(".1") and not stem.startswith("out") and (stem[:-2] + ".2") not in res["files"]:
                        probs.append("records differ in layout: %s was written, its partner file for the second reads was not" % res["files"][stem]["name"])
            in_qual = has_qual and not v.get("fasta_in")
            for stem, f in res["files"].items():
                if f["fmt"] is None:
                    continue  # empty file: no format to observe
                exp = expected_format(f["name"], in_qual)
                if f["fmt"] != exp:
                    probs.append("file %s holds %s records, its name and the input ask for %s" % (f["name"], f["fmt"], exp))
            if probs:
                sig = probs[0].split(" in ")[0] if probs[0].startswith("records") else "output format not as the name asks"
                ctx.violation("matrix: " + sig + " [" + " ".join(k2 for k2 in sorted(v) if v[k2] not in ("", False, 1)) + "]", {"what": probs, **desc}, True)
        if c < 5:
            ctx.sample({"argv": ref["argv"][:24], "records": len(recs), "paired": paired})


def part_long_records(ctx, d, dist):
    """interleaved and two-file FASTA / FASTQ with records so long that two of them do not fit into one --buffer-size: several cores give
    the records of the one-core run (the chunked reader then hands out chunks of a single record)"""
    rng = ctx.rng
    for it in range(ctx.size(3, 20)):
        fasta = it == 0 or rng.random() < 0.7
        L = rng.choice([500, 600, 700])
        pairs = [("pair%d" % i, U.rand_seq(rng, L + rng.randint(0, 40), "ACGT"), U.rand_seq(rng, L + rng.randint(0, 40), "ACGT")) for i in range(rng.choice([4, 6, 9]))]
        ext = "fasta" if fasta else "fastq"

        def rec(n, sq):
            return (">%s\n%s\n" % (n, sq)) if fasta else ("@%s\n%s\n+\n%s\n" % (n, sq, "I" * len(sq)))

        for f in os.listdir(d):
            if os.path.isfile(os.path.join(d, f)):
                os.remove(os.path.join(d, f))
        inter = it == 0 or rng.random() < 0.7
        if inter:
            with open(os.path.join(d, "in.inter." + ext), "w") as f:
                f.write("".join(rec(n + "/1", a) + rec(n + "/2", b) for n, a, b in pairs))
            argv = ["--interleaved", "-o", "out.inter." + ext, "in.inter." + ext]
        else:
            with open(os.path.join(d, "in.1." + ext), "w") as f:
                f.write("".join(rec(n + "/1", a) for n, a, b in pairs))
            with open(os.path.join(d, "in.2." + ext), "w") as f:
                f.write("".join(rec(n + "/2", b) for n, a, b in pairs))
            argv = ["-o", "out.1." + ext, "-p", "out.2." + ext, "in.1." + ext, "in.2." + ext]
        bs = (L * 2 - rng.randint(100, 300)) if fasta else (L * 4 - rng.randint(100, 300))   # one record fits, two do not; a FASTQ pair must fit
        if not fasta:
            bs = max(bs, 2 * (2 * (L + 40) + 20) + 50)
        outs = {}
        for cores in (1, rng.choice([2, 3])):
            for f in os.listdir(d):
                if f.startswith("out."):
                    os.remove(os.path.join(d, f))
            res = R.run_cli(argv, d, cores, buffer_size=(bs if cores > 1 else None), trace=False)
            data = {f: open(os.path.join(d, f)).read() for f in sorted(os.listdir(d)) if f.startswith("out.")}
            outs[cores] = (res["exit"], data, res["stderr"].strip()[-200:])
        dist["long records"] = dist.get("long records", 0) + 1
        ctx.count(("long", fasta, inter, L, len(pairs), bs), True)
        (e1, d1, _), (en, dn, errn) = outs[1], [v for k, v in outs.items() if k != 1][0]
        if e1 == 0 and (en != 0 or dn != d1):
            if en != 0 and "does not fit into buffer" in errn:
                continue
            ctx.violation("long records: several cores differ from one core [%s %s]" % ("fasta" if fasta else "fastq", "interleaved" if inter else "two files"),
                          {"kind": "long", "argv": argv, "buffer_size": bs, "fasta": fasta, "interleaved": inter, "pairs": [list(p_) for p_ in pairs],
                           "what": ("exit %r: %s" % (en, errn)) if en != 0 else "records differ"})


def run_stdout_mate(d, pairs, which, cores):
    """the second (or first) mate of a paired-end run sent to standard output: returns (exit, stdout text, other file text)"""
    rec = lambda n, sq: "@%s\n%s\n+\n%s\n" % (n, sq, "I" * len(sq))
    for f in os.listdir(d):
        if os.path.isfile(os.path.join(d, f)):
            os.remove(os.path.join(d, f))
    open(os.path.join(d, "in.1.fastq"), "w").write("".join(rec(n + "/1", a) for n, a, b in pairs))
    open(os.path.join(d, "in.2.fastq"), "w").write("".join(rec(n + "/2", b) for n, a, b in pairs))
    o1, o2 = ("-", "out.2.fastq") if which == 1 else ("out.1.fastq", "-")
    res = R.run_cli(["-a", "ACGTACGTAC", "-A", "TTGCATTGCA", "-o", o1, "-p", o2, "in.1.fastq", "in.2.fastq"], d, cores, trace=False)
    other = "out.2.fastq" if which == 1 else "out.1.fastq"
    op = os.path.join(d, other)
    return res["exit"], res["stdout"], (open(op).read() if os.path.exists(op) else None)


def part_stdout_mate(ctx, d, dist):
    """one of the two paired output files is '-' (standard output): what arrives there is exactly the records that the run with a
    named file writes into that file (the report then goes to standard error), for one core and for several"""
    rng = ctx.rng
    for it in range(ctx.size(2, 10)):
        pairs = [("pair%d" % i, U.rand_seq(rng, rng.randint(20, 60), "ACGT") + rng.choice(["", "ACGTACGTAC"]),
                  U.rand_seq(rng, rng.randint(20, 60), "ACGT") + rng.choice(["", "TTGCATTGCA"])) for i in range(rng.choice([3, 8, 30]))]
        for f in os.listdir(d):
            if os.path.isfile(os.path.join(d, f)):
                os.remove(os.path.join(d, f))
        rec = lambda n, sq: "@%s\n%s\n+\n%s\n" % (n, sq, "I" * len(sq))
        open(os.path.join(d, "in.1.fastq"), "w").write("".join(rec(n + "/1", a) for n, a, b in pairs))
        open(os.path.join(d, "in.2.fastq"), "w").write("".join(rec(n + "/2", b) for n, a, b in pairs))
        ref = R.run_cli(["-a", "ACGTACGTAC", "-A", "TTGCATTGCA", "-o", "ref.1.fastq", "-p", "ref.2.fastq", "in.1.fastq", "in.2.fastq"], d, 1, trace=False)
        if ref["exit"] != 0:
            continue
        want = {1: open(os.path.join(d, "ref.1.fastq")).read(), 2: open(os.path.join(d, "ref.2.fastq")).read()}
        for which in (2, 1):
            for cores in (1, 2):
                code, out, other = run_stdout_mate(d, pairs, which, cores)
                dist["mate on stdout"] = dist.get("mate on stdout", 0) + 1
                ctx.count(("stdout-mate", which, cores, len(pairs), it), True)
                if code != 0 or out != want[which] or other != want[3 - which]:
                    ctx.violation("a paired output on standard output differs from the same output in a named file [R%d on stdout]" % which,
                                  {"kind": "stdout-mate", "which": which, "cores": cores, "pairs": [list(p_) for p_ in pairs],
                                   "what": ("exit %r" % code) if code != 0 else ("standard output holds %d bytes, the named file %d" % (len(out), len(want[which])))})
                    return


def check(ctx):
    ctx.coq()
    ctx.model()
    buildimpl.activate()
    dist = {}
    d = os.path.join(buildimpl.scratch_root(), "c19")
    shutil.rmtree(d, ignore_errors=True)
    os.makedirs(d)
    try:
        cp = os.path.join(core.VERIF, "corpus", "C19.json")
        if os.path.exists(cp):
            for doc in json.load(open(cp)):
                replay_one(ctx, doc, d)
        for part in (part_format, part_matrix, part_long_records, part_stdout_mate):
            try:
                part(ctx, d, dist)
            except Exception as e:  # noqa -- a crash of one part is a broken correspondence; the other part still searches
                import traceback

                ctx.broken.append("%s crashed: %s: %s" % (part.__name__, type(e).__name__, e))
                ctx.notes[part.__name__ + "_traceback"] = traceback.format_exc()[-1500:]
            shutil.rmtree(d, ignore_errors=True)
            os.makedirs(d)
    finally:
        shutil.rmtree(d, ignore_errors=True)
    ctx.coverage["rule"] = (
        "(a) file names = stem x extension x compression suffix (incl. upper case, double suffixes, dots, directories): model decision vs the writer class "
        "really created, direct and proxied, with and without qualities; (b) random single-end and paired-end option sets on 4-16 records: reference run "
        "(plain, two files, one core) vs variants over input container {plain, gz, multi-member gz, bz2, xz, zst} x output container {plain, gz, bz2, xz, zst} x "
        "interleaved in/out x FASTA input (when no quality option) x .fasta output names x 1/2 cores; non-trivial = the reference produced records")
    ctx.coverage["input_distribution"] = dist
    ctx.coverage["search_note"] = "the record comparison and the name->format rule ran on every variant of the matrix"
    ctx.coverage["trusted_base"] = ctx.coverage["trusted_base"] + [
        "Python's gzip/bz2/lzma and backports.zstd are used by the harness to build compressed inputs and to decompress outputs",
        "modelled, not verified: xopen, the compression libraries, dnaio's readers and writers; names are lower-cased by the harness before they reach the model (str.lower in the code)",
    ]


def replay_one(ctx, doc, d):
    if doc.get("kind") == "format-name":
        return
    case = case_from_doc(doc)
    ref = run_variant(case, d, {})
    res = run_variant(case, d, doc["variant"])
    return ref, res


def case_from_doc(doc):
    if doc["paired"]:
        cfg = P.PCfg.from_json(doc["cfg"])
        recs = [tuple(tuple(r) for r in pr) for pr in doc["records"]]
    else:
        cfg = S.Cfg.from_json(doc["cfg"])
        recs = [tuple(r) for r in doc["records"]]
    return {"paired": doc["paired"], "cfg": cfg, "records": recs}


def replay(doc):
    r = doc["replay"]
    d = os.path.join(buildimpl.scratch_root(), "c19-replay")
    shutil.rmtree(d, ignore_errors=True)
    os.makedirs(d)
    try:
        if r.get("kind") == "format-name":
            got = impl_writer_formats(d, [r["name"]])[0]
            print("C19 replay: name %r: implementation %r, documented %r" % (r["name"], got, r["documented"]))
            return 1 if got[1] != r["documented"] else 0
        if r.get("kind") == "stdout-mate":
            pairs = [tuple(p_) for p_ in r["pairs"]]
            R.run_cli  # noqa
            for f in os.listdir(d):
                if os.path.isfile(os.path.join(d, f)):
                    os.remove(os.path.join(d, f))
            rec = lambda n, sq: "@%s\n%s\n+\n%s\n" % (n, sq, "I" * len(sq))
            open(os.path.join(d, "in.1.fastq"), "w").write("".join(rec(n + "/1", a) for n, a, b in pairs))
            open(os.path.join(d, "in.2.fastq"), "w").write("".join(rec(n + "/2", b) for n, a, b in pairs))
            R.run_cli(["-a", "ACGTACGTAC", "-A", "TTGCATTGCA", "-o", "ref.1.fastq", "-p", "ref.2.fastq", "in.1.fastq", "in.2.fastq"], d, 1, trace=False)
            want = open(os.path.join(d, "ref.%d.fastq" % r["which"])).read()
            code, out, other = run_stdout_mate(d, pairs, r["which"], r["cores"])
            same = code == 0 and out == want
            print("C19 replay (R%d on standard output, %d cores): exit %r, %s" % (r["which"], r["cores"], code, "same records" if same else "DIFFERENT"))
            return 0 if same else 1
        if r.get("kind") == "long":
            fasta = r["fasta"]
            ext = "fasta" if fasta else "fastq"
            rec = (lambda n, sq: ">%s\n%s\n" % (n, sq)) if fasta else (lambda n, sq: "@%s\n%s\n+\n%s\n" % (n, sq, "I" * len(sq)))
            if r["interleaved"]:
                open(os.path.join(d, "in.inter." + ext), "w").write("".join(rec(n + "/1", a) + rec(n + "/2", b) for n, a, b in r["pairs"]))
            else:
                open(os.path.join(d, "in.1." + ext), "w").write("".join(rec(n + "/1", a) for n, a, b in r["pairs"]))
                open(os.path.join(d, "in.2." + ext), "w").write("".join(rec(n + "/2", b) for n, a, b in r["pairs"]))
            outs = []
            for cores in (1, 2):
                for f in os.listdir(d):
                    if f.startswith("out."):
                        os.remove(os.path.join(d, f))
                res = R.run_cli(r["argv"], d, cores, buffer_size=(r["buffer_size"] if cores > 1 else None), trace=False)
                outs.append((res["exit"], {f: open(os.path.join(d, f)).read() for f in sorted(os.listdir(d)) if f.startswith("out.")}))
            same = outs[0] == outs[1]
            print("C19 replay (long records): one core exit %r, two cores exit %r, %s" % (outs[0][0], outs[1][0], "same records" if same else "DIFFERENT"))
            return 0 if same else 1
        case = case_from_doc(r)
        ref = run_variant(case, d, {"gt_names": True} if r["variant"].get("gt_names") else {})
        res = run_variant(case, d, r["variant"])
        paired = r["paired"]
        same = res["exit"] == 0 and canon(ref["files"], paired, False) == canon(res["files"], paired, False)
        fm = [(f["name"], f["fmt"]) for f in res["files"].values()]
        print("C19 replay: exit=%r records equal=%s formats=%s expected %s" % (res["exit"], same, fm, r.get("what")))
        b = case["cfg"].base if paired else case["cfg"]
        in_qual = (not b.fasta) and not r["variant"].get("fasta_in")
        okfmt = all(f["fmt"] is None or f["fmt"] == expected_format(f["name"], in_qual) for f in res["files"].values())
        return 0 if (same and okfmt) else 1
    finally:
        shutil.rmtree(d, ignore_errors=True)
