"""C09 -- see harness/sysprops.py (proof obligations of coq/Properties/C09.v, pipeline-model correspondence with
cutadapt.cli.main on multi-adapter / multi-round / linked option sets, oracle_C09 = documented choice rule applied to the
implementation's own single-adapter answers vs AdapterCutter)."""
from .. import sysprops


def check(ctx):
    sysprops.run(ctx, "C09")


def replay(doc):
    return sysprops.replay(doc, "C09")
