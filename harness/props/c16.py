"""C16 -- see harness/sysprops.py (system-level check: proof obligations of coq/Properties/C16.v,
pipeline-model correspondence with cutadapt.cli.main, oracle_C16 on the implementation's outputs)."""
from .. import sysprops


def check(ctx):
    sysprops.run(ctx, "C16")


def replay(doc):
    return sysprops.replay(doc, "C16")
