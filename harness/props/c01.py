"""C01 -- every reported match is a genuine, in-tolerance occurrence.
Proof: coq/Properties/C01.v.  Correspondence: Aligner.locate (all 16 flag sets),
PrefixComparer/SuffixComparer and <Adapter>.match_to of all eight classes vs the
extracted Gallina model.  Oracle (search only): textbook edit distance / Hamming
distance of the reported intervals, documented placement rule, overlap, threshold."""
import itertools

import json

from .. import core, buildimpl
from .. import alignutil as U


def gen_locate_cases(ctx):
    rng = ctx.rng
    cases = []
    for _ in range(ctx.size(4000, 60000)):
        m = rng.randint(1, 9)
        alpha = rng.choice(["AC", "ACGT", "ACGTN", "ACN", "ACGTNRYacgtX"])
        ref = U.rand_seq(rng, m, alpha).upper()
        wref = rng.random() < 0.5
        wq = rng.random() < 0.3
        if wref and ref.count("N") == m:
            continue
        rate = rng.choice(U.RATES)
        flags = rng.randrange(16)
        ic = rng.choice([1, 1, 100000])
        ov = rng.randint(1, m)
        for _ in range(4):
            n = rng.randint(0, 14)
            if rng.random() < 0.6 and n >= m:
                p = rng.randint(0, n - m)
                q = U.rand_seq(rng, p, alpha) + ref + U.rand_seq(rng, n - m - p, alpha)
                q = U.mutate(rng, q, rng.randint(0, 3), alpha)
            else:
                q = U.rand_seq(rng, n, alpha)
            cases.append(("locate", ref, q, rate, flags, wref, wq, ic, ov))
    return cases


def locate_line(c):
    _, ref, q, rate, flags, wref, wq, ic, ov = c
    thr = U.thr_table(rate, len(ref))
    return "locate %s|%s|%s|%d %d %d %d %d %d|%d|%d" % (
        U.enc(ref), U.enc(q), " ".join(map(str, thr)), flags & 1, (flags >> 1) & 1, (flags >> 2) & 1, (flags >> 3) & 1,
        int(wref), int(wq), ic, ov)


def locate_impl(c):
    from cutadapt._align import Aligner

    _, ref, q, rate, flags, wref, wq, ic, ov = c
    try:
        r = Aligner(ref, rate, flags, wref, wq, ic, ov).locate(q)
    except Exception as e:  # an exception is an answer too (compared with the model, which has none)
        return "EXC %s" % type(e).__name__
    return "None" if r is None else " ".join(map(str, r))


def gen_match_cases(ctx, n_specs, reads_per, types=U.TYPES, maxlen=12):
    rng = ctx.rng
    out = []
    for _ in range(n_specs):
        spec = U.rand_spec(rng, types, maxlen)
        reads = [U.rand_read(rng, spec, spec.seq.upper()) for _ in range(reads_per)]
        out.append((spec, reads))
    return out


def exhaustive_specs(ctx):
    """small scope: adapters over {A,C,N} up to length 3 (4 thorough), reads over {A,C,N} up to 5 (6)"""
    la, lr = ctx.size(3, 4), ctx.size(4, 6)
    specs = []
    for typ in U.TYPES:
        for m in range(1, la + 1):
            for t in itertools.product("ACN", repeat=m):
                seq = "".join(t)
                if set(seq) == {"N"}:
                    continue
                for rate, indels in ((0.0, True), (0.34, True), (0.5, False), (0.5, True)):
                    if ctx.quick and (U.stable_hash((typ, seq, rate)) % 4):
                        continue
                    specs.append(U.AdSpec(typ, seq, rate, 1 if m < 3 else 2, False, True, indels, False))
    reads = ["".join(t) for n in range(0, lr + 1) for t in itertools.product("ACN", repeat=n)]
    return specs, reads


def check(ctx):
    ctx.coq()
    ctx.model()
    buildimpl.activate()
    model_ok = not any("extraction" in b for b in ctx.broken)
    dist = {}
    # ---- 1. Aligner.locate, all flag combinations
    lc = gen_locate_cases(ctx)
    impl = [locate_impl(c) for c in lc]
    mod = core.model_run([locate_line(c) for c in lc]) if model_ok else [None] * len(lc)
    bad = core.diff_cases(ctx, "Aligner.locate", lc, impl, mod, None)
    for c, o in zip(lc, impl):
        ctx.count(c, o != "None")
        if o.startswith("EXC"):
            ctx.violation("Aligner raises " + o[4:], {"case": list(c), "why": "Aligner(...).locate raised " + o[4:]})
    dist["locate"] = len(lc)
    for i in bad[:10]:
        ctx.violation("correspondence:Aligner.locate", {"case": list(lc[i]), "impl": impl[i], "model": mod[i]}, found_input=False)
    # ---- 2. match_to of the eight classes (prefilter mocked: C07 is about the prefilter) + oracle on the real match_to
    groups = gen_match_cases(ctx, ctx.size(1500, 25000), 8)
    ex_specs, ex_reads = exhaustive_specs(ctx)
    groups += [(s, ex_reads) for s in ex_specs]
    lines, impl_out, meta = [], [], []
    n_viol = 0
    for spec, reads in groups:
        try:
            ad_real = spec.build()
            ad_mock = spec.build(mock_prefilter=True)
        except (ValueError, KeyError):
            continue  # documented rejections (e.g. only N wildcards)
        except Exception as e:
            ctx.violation("%s adapter construction raises %s" % (spec.typ, type(e).__name__), {"adapter": spec.to_json(), "why": "%s: %s" % (type(e).__name__, e)})
            continue
        # every fourth adapter also as a worker process gets it under the 'spawn' start method: through pickle
        pick = None
        if len(meta) % 4 == 0:
            try:
                import pickle
                pick = pickle.loads(pickle.dumps(ad_mock))
            except Exception as e:
                ctx.violation("adapter cannot be pickled: %s" % type(e).__name__, {"adapter": spec.to_json(), "read": "", "why": "%s: %s" % (type(e).__name__, e)})
        for r in reads:
            try:
                mt = ad_mock.match_to(r)
                real_mt = ad_real.match_to(r)
                if pick is not None and U.match_tuple(pick.match_to(r)) != U.match_tuple(mt):
                    n_viol += 1
                    dist["pickled adapters"] = dist.get("pickled adapters", 0) + 1
                    ctx.violation("%s: the adapter answers differently after pickling" % spec.typ,
                                  {"adapter": spec.to_json(), "read": r, "observed": U.match_tuple(pick.match_to(r)), "before_pickling": U.match_tuple(mt),
                                   "why": U.oracle_sound(spec, ad_mock, r, pick.match_to(r)) or "match differs from the one of the original object"})
                elif pick is not None:
                    dist["pickled adapters"] = dist.get("pickled adapters", 0) + 1
            except Exception as e:
                ctx.violation("%s match_to raises %s" % (spec.typ, type(e).__name__), {"adapter": spec.to_json(), "read": r, "why": "match_to raised %s: %s" % (type(e).__name__, e)})
                continue
            impl_out.append(U.match_tuple(mt))
            lines.append(U.model_line_matchto(ad_mock, spec, r))
            meta.append((spec, r))
            ctx.count((spec.key(), r), mt is not None)
            key = "%s/%s" % (spec.typ, "match" if mt is not None else "none")
            dist[key] = dist.get(key, 0) + 1
            # oracle: both the prefiltered (what the user gets) and the unfiltered answer must be genuine
            for which, res in (("match_to", real_mt), ("match_to[no prefilter]", mt)):
                why = U.oracle_sound(spec, ad_mock, r, res)
                if why:
                    n_viol += 1
                    ctx.violation("%s %s: %s" % (spec.typ, which, why.split(" but ")[0]),
                                  {"adapter": spec.to_json(), "read": r, "observed": U.match_tuple(res), "why": why,
                                   "reproduce": "cd /verif && ./check replay <this file>"})
    # ---- 3. matches that come out of the adapter index (several anchored adapters given together: the default at the command
    # line): the same claims -- inside the read, anchored, within the adapter's own tolerance, errors = exact distance
    from . import c08

    import logging
    logging.disable(logging.WARNING)
    try:
        for _ in range(ctx.size(60, 1200)):
            aset = c08.rand_adapter_set(ctx.rng)
            try:
                objs, idx = c08.impl_index(aset)
            except Exception:
                continue
            for r in c08.rand_reads(ctx.rng, aset, 10):
                try:
                    res = c08.mt(objs, idx.match_to(r))
                except Exception as e:
                    ctx.violation("indexed match_to raises %s" % type(e).__name__, {"aset": aset, "read": r, "why": "%s: %s" % (type(e).__name__, e), "indexed": True})
                    continue
                ctx.count(("indexed", json.dumps(aset, sort_keys=True), r), res is not None)
                dist["indexed/" + ("match" if res is not None else "none")] = dist.get("indexed/" + ("match" if res is not None else "none"), 0) + 1
                for why in c08.genuine(aset, r, res):
                    ctx.violation("indexed adapters: " + why, {"aset": aset, "read": r, "observed": list(res), "why": why, "indexed": True})
    finally:
        logging.disable(logging.NOTSET)
    # ---- 4. the tolerance is the one configured: adapters that come out of the specification parser next to a file:
    # specification with its own error rate still tolerate what the global -e says
    import os
    from cutadapt.parser import make_adapters_from_specifications
    sc = os.path.join(buildimpl.scratch_root(), "c01spec")
    os.makedirs(sc, exist_ok=True)
    try:
        for _ in range(ctx.size(40, 600)):
            rng = ctx.rng
            L = rng.choice([10, 12, 16, 20])
            seq2 = U.rand_seq(rng, L, "ACGT")
            grate = rng.choice([0.0, 0.1, 0.15])
            path = os.path.join(sc, "ad.fasta")
            with open(path, "w") as f:
                f.write(">f1\n%s\n" % U.rand_seq(rng, 9, "ACGT"))
            flag = rng.choice(["back", "front", "anywhere"])
            params = dict(max_errors=grate, min_overlap=3, read_wildcards=False, adapter_wildcards=True, indels=rng.random() < 0.7)
            try:
                objs = make_adapters_from_specifications([(flag, "file:%s;e=%s" % (path, rng.choice(["0.3", "0.4", "3"]))), (flag, "later=" + seq2)], params)
            except Exception as e:
                ctx.violation("specification parser raises %s" % type(e).__name__, {"why": "%s: %s" % (type(e).__name__, e), "spec": True})
                continue
            ad2 = objs[-1]
            for _r in range(6):
                core_ = U.mutate(rng, seq2, rng.choice([1, 2, 3, 4]), "ACGT", "s")
                read = U.rand_seq(rng, rng.choice([0, 3, 8]), "ACGT") + core_ + U.rand_seq(rng, rng.choice([0, 3, 8]), "ACGT")
                mt_ = ad2.match_to(read)
                ctx.count(("spec-seq", seq2, grate, read), mt_ is not None)
                dist["after a file: specification/" + ("match" if mt_ is not None else "none")] = dist.get("after a file: specification/" + ("match" if mt_ is not None else "none"), 0) + 1
                if mt_ is not None and mt_.errors > int(grate * (mt_.astop - mt_.astart)):
                    ctx.violation("errors exceed the tolerance configured with -e (adapter given after a file: specification)",
                                  {"global_rate": grate, "adapter": seq2, "read": read, "observed": list(U.match_tuple(mt_)), "spec": True,
                                   "why": "%d errors over %d aligned adapter bases at -e %s" % (mt_.errors, mt_.astop - mt_.astart, grate)})
    finally:
        import shutil
        shutil.rmtree(sc, ignore_errors=True)
    mod2 = core.model_run(lines) if model_ok else [None] * len(lines)
    bad2 = core.diff_cases(ctx, "match_to", meta, impl_out, mod2, None)
    for i in bad2[:10]:
        ctx.violation("correspondence:match_to", {"adapter": meta[i][0].to_json(), "read": meta[i][1], "impl": impl_out[i], "model": mod2[i]},
                      found_input=False)
    ctx.coverage["rule"] = (
        "Aligner.locate on random (reference, query, rate, 16 flag sets, wildcard switches, indel cost 1/100000, min_overlap); "
        "match_to of all eight adapter classes on random adapters with planted/edited/partial occurrences, plus exhaustive adapters over {A,C,N} "
        "up to length %d x reads over {A,C,N} up to length %d; non-trivial = a match is reported; distinct by full case" % (ctx.size(3, 4), ctx.size(4, 6))
    )
    ctx.coverage["input_distribution"] = dist
    for i in range(0, len(meta), max(1, len(meta) // 5)):
        ctx.sample({"adapter": meta[i][0].to_json(), "read": meta[i][1], "impl": impl_out[i]})
    ctx.coverage["search_note"] = "oracle_C01 (textbook distance of the reported intervals, placement, overlap, threshold) was run on all %d match_to cases of this run, with and without the prefilter" % len(meta)


def replay(doc):
    r = doc["replay"]
    if r.get("spec"):
        print("specification-sequence case (see the replay file):", r.get("why"))
        return 1
    if r.get("indexed"):
        from . import c08
        from .. import buildimpl as B

        B.activate()
        objs, idx = c08.impl_index(r["aset"])
        res = c08.mt(objs, idx.match_to(r["read"]))
        probs = c08.genuine(r["aset"], r["read"], res)
        print("indexed adapters", r["aset"], "read", r["read"], "->", res, "|", probs or "property holds on this input")
        return 1 if probs else 0
    if "adapter" not in r:
        c = r["case"]
        print("locate case", c, "impl:", locate_impl(tuple(c)))
        return 0
    spec = U.AdSpec.from_json(r["adapter"])
    ad = spec.build()
    mt = ad.match_to(r["read"])
    why = U.oracle_sound(spec, spec.build(mock_prefilter=True), r["read"], mt)
    print("adapter", r["adapter"], "read", r["read"], "->", U.match_tuple(mt), "|", why or "property holds on this input")
    return 1 if why else 0
