"""C13 -- quality trimming = BWA rule.
Proof: coq/Properties/C13.v.  Correspondence: quality_trim_index,
nextseq_trim_index, QualityTrimmer, NextseqQualityTrimmer, parse_cutoffs vs the
extracted Gallina model.  Oracle (search only): direct suffix sums."""
import json
import os
import itertools

from .. import core, buildimpl


def enc(s):
    return " ".join(str(ord(c)) for c in s)


# ---------------------------------------------------------------- generators
def gen_cases(ctx):
    rng = ctx.rng
    cases = []
    # exhaustive small scope around the cutoff, both bases
    maxlen = ctx.size(6, 8)
    for base in (33, 64):
        for (cf, cb) in ((0, 10), (10, 10), (12, 8), (10, 0)):
            # base 64: characters below '@' stand for negative values (Solexa style), below every cutoff including 0
            alpha = [chr(base + v) for v in ((2 if base == 33 else -3), 9, 10, 11, 25)]
            if ctx.quick:
                alpha = alpha[:4]
            for n in range(0, maxlen + 1):
                for t in itertools.product(alpha, repeat=n):
                    cases.append(("qtrim", "".join(t), cf, cb, base))
    # random long strings, engineered ties
    for _ in range(ctx.size(6000, 200000)):
        base = rng.choice((33, 64))
        n = rng.choice((0, 1, 2, 3, 5, 8, 13, 30, 80, 151))
        cf = rng.choice((0, 0, 5, 10, 20, 30, -3, 45))
        cb = rng.choice((0, 5, 10, 20, 30, 30, -3, 45))
        mode = rng.random()
        lo = 0 if base == 33 or rng.random() < 0.5 else -5
        if mode < 0.3:
            q = [rng.randint(lo, 41) for _ in range(n)]
        elif mode < 0.7:  # near the cutoffs: many ties in the running sum
            q = [rng.choice((cb - 1, cb, cb + 1, cf, cf + 1, cf - 1, cb - 2, cb + 2)) for _ in range(n)]
            q = [min(max(x, lo), 93 if base == 33 else 62) for x in q]
        else:  # good middle, bad ends
            k1, k2 = rng.randint(0, n), rng.randint(0, n)
            q = [rng.randint(lo, 15) if (i < k1 or i >= n - k2) else rng.randint(15, 41) for i in range(n)]
        cases.append(("qtrim", "".join(chr(base + x) for x in q), cf, cb, base))
    for _ in range(ctx.size(4000, 120000)):
        base = rng.choice((33, 64))
        n = rng.choice((0, 1, 2, 4, 7, 20, 60, 151))
        cutoff = rng.choice((0, 5, 10, 20, 30, -2))
        q = [rng.choice((cutoff - 1, cutoff, cutoff + 1, 2, 40)) for _ in range(n)]
        q = [min(max(x, 0), 62) for x in q]
        tailg = rng.randint(0, n)
        bases = "".join(
            rng.choice("ACGTNgG" if i < n - tailg else "GGGGGgA") for i in range(n)
        )
        cases.append(("nextseq", bases, "".join(chr(base + x) for x in q), cutoff, base))
    # modifier level
    for _ in range(ctx.size(1500, 30000)):
        base = rng.choice((33, 64))
        n = rng.choice((0, 1, 3, 10, 40))
        cf = rng.choice((0, 10, 25))
        cb = rng.choice((0, 10, 25))
        q = "".join(chr(base + rng.choice((2, 9, 10, 11, 24, 25, 26, 40))) for _ in range(n))
        s = "".join(rng.choice("ACGTG") for _ in range(n))
        cases.append(("qtrimmer", s, q, cf, cb, base))
        cases.append(("nstrimmer", s, q, cb, base))
    return cases


def model_line(c):
    k = c[0]
    if k == "qtrim":
        return "qtrim %s|%d|%d|%d" % (enc(c[1]), c[2], c[3], c[4])
    if k == "nextseq":
        return "nextseq %s|%s|%d|%d" % (enc(c[1]), enc(c[2]), c[3], c[4])
    if k == "qtrimmer":
        return "qtrimmer %s|%s|%d|%d|%d" % (enc(c[1]), enc(c[2]), c[3], c[4], c[5])
    if k == "nstrimmer":
        return "nstrimmer %s|%s|%d|%d" % (enc(c[1]), enc(c[2]), c[3], c[4])
    raise ValueError(k)


def impl_run(c):
    from cutadapt.qualtrim import quality_trim_index, nextseq_trim_index
    from cutadapt.modifiers import QualityTrimmer, NextseqQualityTrimmer
    from cutadapt.info import ModificationInfo
    from dnaio import SequenceRecord

    k = c[0]
    if k == "qtrim":
        a, b = quality_trim_index(c[1], c[2], c[3], c[4])
        return "%d %d" % (a, b)
    if k == "nextseq":
        r = SequenceRecord("r", c[1], c[2])
        return "%d" % nextseq_trim_index(r, c[3], c[4])
    if k == "qtrimmer":
        r = SequenceRecord("r", c[1], c[2])
        m = QualityTrimmer(c[3], c[4], c[5])
        o = m(r, ModificationInfo(r))
        return "%s|%s|%d" % (enc(o.sequence), enc(o.qualities), m.trimmed_bases)
    if k == "nstrimmer":
        r = SequenceRecord("r", c[1], c[2])
        m = NextseqQualityTrimmer(c[3], c[4])
        o = m(r, ModificationInfo(r))
        return "%s|%s|%d" % (enc(o.sequence), enc(o.qualities), m.trimmed_bases)


# ---------------------------------------------------------------- oracle (property text, direct)
def spec_3p(qs, cutoff):
    """qs: numeric qualities.  Returns stop per the property statement."""
    n = len(qs)
    best, besti = 0, n
    s = 0
    for i in range(n - 1, -1, -1):
        s = sum(cutoff - qs[j] for j in range(i, n))  # suffix sum, recomputed directly
        if s < 0:
            break
        if s > best:
            best, besti = s, i
    return besti


def spec_index(qs, cf, cb):
    n = len(qs)
    stop = spec_3p(qs, cb)
    start = n - spec_3p(qs[::-1], cf)
    return (start, stop) if start < stop else (0, 0)


def oracle(c, out):
    k = c[0]
    if k == "qtrim":
        qs = [ord(x) - c[4] for x in c[1]]
        exp = spec_index(qs, c[2], c[3])
        got = tuple(int(x) for x in out.split())
        if got != exp:
            return "quality_trim_index=%s, BWA rule gives %s" % (got, exp)
        if qs and all(q >= c[2] for q in qs) and all(q >= c[3] for q in qs) and got != (0, len(qs)):
            return "all-good read not left unchanged"
        if qs and all(q < c[2] for q in qs) and all(q < c[3] for q in qs) and got != (0, 0):
            return "all-bad read not emptied"
    elif k == "nextseq":
        qs = [(c[3] - 1) if b == "G" else (ord(x) - c[4]) for b, x in zip(c[1], c[2])]
        exp = spec_3p(qs, c[3])
        if int(out) != exp:
            return "nextseq_trim_index=%s, rule gives %d" % (out, exp)
    elif k in ("qtrimmer", "nstrimmer"):
        s, q, t = out.split("|")
        s = "".join(chr(int(x)) for x in s.split())
        q = "".join(chr(int(x)) for x in q.split())
        if k == "qtrimmer":
            qs = [ord(x) - c[5] for x in c[2]]
            a, b = spec_index(qs, c[3], c[4])
        else:
            qs = [(c[3] - 1) if bb == "G" else (ord(x) - c[4]) for bb, x in zip(c[1], c[2])]
            a, b = 0, spec_3p(qs, c[3])
        if s != c[1][a:b] or q != c[2][a:b]:
            return "modifier output is not the slice [%d:%d]" % (a, b)
        if int(t) != len(c[1]) - len(s):
            return "trimmed_bases=%s but %d bases were removed" % (t, len(c[1]) - len(s))
    return None


def parse_cutoffs_cases():
    return [("5", (0, 5)), ("6,7", (6, 7)), ("0,3", (0, 3)), ("12,0", (12, 0)), (" 4 , 9 ", (4, 9)), ("-3", (0, -3))]


def check(ctx):
    ctx.coq()
    ctx.model()
    buildimpl.activate()
    cases = gen_cases(ctx)
    impl_out = [impl_run(c) for c in cases]
    model_out = core.model_run([model_line(c) for c in cases]) if not any("extraction" in b for b in ctx.broken) else [None] * len(cases)
    bad = core.diff_cases(ctx, "qualtrim", cases, impl_out, model_out, None)
    dist = {}
    for c, o in zip(cases, impl_out):
        n = len(c[1])
        if c[0] == "qtrim":
            a, b = (int(x) for x in o.split())
            nontrivial = (a, b) != (0, n)
        elif c[0] == "nextseq":
            nontrivial = int(o) != n
        else:
            nontrivial = int(o.split("|")[2]) > 0
        ctx.count(c, nontrivial)
        key = "%s/len%s" % (c[0], "0" if n == 0 else "1-8" if n <= 8 else "9-40" if n <= 40 else ">40")
        dist[key] = dist.get(key, 0) + 1
    ctx.coverage["rule"] = (
        "exhaustive over 4-5 quality values around the cutoff up to length %d for 4 cutoff pairs and both bases, plus seeded random "
        "strings (uniform / near-cutoff ties / good-middle-bad-ends), NextSeq cases with G tails, and modifier-level cases; "
        "non-trivial = something is trimmed; distinct by full case" % ctx.size(6, 8)
    )
    ctx.coverage["input_distribution"] = dist
    for c in cases[:: max(1, len(cases) // 5)]:
        ctx.sample({"case": list(c), "impl": impl_out[cases.index(c)]})
    # search: the oracle restates the property on the implementation's outputs
    for i, c in enumerate(cases):
        why = oracle(c, impl_out[i])
        if why:
            ctx.violation("%s: %s" % (c[0], why.split(",")[0]), {"case": list(c), "observed": impl_out[i], "why": why,
                          "reproduce": "cd /verif && ./check replay <this file>"})
    from cutadapt.cli import parse_cutoffs

    for s, exp in parse_cutoffs_cases():
        ctx.count(("parse", s), True)
        try:
            got = parse_cutoffs(s)
        except Exception as e:  # noqa
            got = repr(e)
        if got != exp:
            ctx.violation("parse_cutoffs", {"case": ["parse_cutoffs", s], "observed": str(got), "expected": str(exp)})
    for i in bad[:20]:
        ctx.violation("correspondence:qualtrim", {"case": list(cases[i]), "impl": impl_out[i], "model": model_out[i]}, found_input=False)
    # system level: the reported number of quality-trimmed bases equals the bases actually removed
    from .. import sysutil as S
    rng = ctx.rng
    nsys = 0
    with S.Scratch() as d:
        for _ in range(ctx.size(60, 600)):
            c = S.Cfg()
            r = rng.random()
            if r < 0.7:
                c.qcut = rng.choice(["10", "20", "15,10", "5,0", "12,0", "0,12", "30"])
            if r > 0.4:
                c.nextseq = rng.choice([5, 10, 20, 30])
            if rng.random() < 0.3:
                c.cuts = (rng.choice([1, 3, -2]),)
            reads = [S.make_read(rng, i, [], False) for i in range(rng.choice([1, 4, 10]))]
            if rng.random() < 0.25 and len(reads) > 1:
                # consecutive reads with one and the same quality string (binned qualities) but different bases and G tails
                L = min(len(sq) for _, sq, _ in reads)
                qs = reads[0][2][:L]
                reads = [(nm, "".join(rng.choice("ACGT") for _ in range(L - k_)) + "G" * k_, qs)
                         for (nm, sq, ql), k_ in zip(reads, [rng.randint(0, max(0, L // 2)) for _ in reads]) if L > 0] or reads
            if rng.random() < 0.4:
                # the same Phred values written with base 64; some reads start or end with characters below '@' (negative values)
                c.qbase = 64
                neg = rng.random() < 0.5
                new = []
                for nm, sq, ql in reads:
                    vals = [min(ord(x) - 33, 62) for x in ql]
                    if neg and vals:
                        k1, k2 = rng.choice([0, 1, 2, 3]), rng.choice([0, 0, 1, 2])
                        vals = [rng.randint(-5, -1) if (i < k1 or i >= len(vals) - k2) else v for i, v in enumerate(vals)]
                    new.append((nm, sq, "".join(chr(64 + v) for v in vals)))
                reads = new
            res = S.run_impl(c, reads, d)
            nsys += 1
            if res["exit"] != 0:
                ctx.violation("system: implementation fails", {"argv": res["argv"][5:-1], "reads": [list(x) for x in reads], "exit": res["exit"]})
                continue
            ctx.count(("sys", json_key(c), tuple(reads)), True)
            cut_only = S.run_impl(S.Cfg(cuts=c.cuts), reads, d)
            before = sum(len(s) for _, s, _ in cut_only["files"].get(0, []))
            after = sum(len(s) for _, s, _ in res["files"].get(0, []))
            rep = res["report"]["basepair_counts"]["quality_trimmed"] or 0
            if c.qcut is not None and c.nextseq is None:
                # -q alone at the command line: every output read is the slice the BWA rule gives for the read that -u left
                parts = [int(x) for x in c.qcut.split(",")]
                cf, cb = (0, parts[0]) if len(parts) == 1 else parts
                for (nm, sq, ql), (_, sq0, ql0) in zip(res["files"].get(0, []), cut_only["files"].get(0, [])):
                    a, b = spec_index([ord(x) - c.qbase for x in ql0], cf, cb)
                    if sq != sq0[a:b] or ql != ql0[a:b]:
                        ctx.violation("system: -q at the command line does not trim as the BWA rule says",
                                      {"case": ["system", res["argv"][5:-1]], "reads": [list(x) for x in reads], "observed": [nm, sq, ql], "expected": [sq0[a:b], ql0[a:b]],
                                       "why": "read %s: -q %s gives %r, the rule gives %r" % (nm, c.qcut, sq, sq0[a:b])})
                        break
            if c.qcut is not None and c.nextseq is not None:
                # both given: the NextSeq step runs first, the -q step then works on what is left
                parts = [int(x) for x in c.qcut.split(",")]
                cf, cb = (0, parts[0]) if len(parts) == 1 else parts
                for (nm, sq, ql), (_, sq0, ql0) in zip(res["files"].get(0, []), cut_only["files"].get(0, [])):
                    b1 = spec_3p([(c.nextseq - 1) if bb == "G" else (ord(x) - c.qbase) for bb, x in zip(sq0, ql0)], c.nextseq)
                    sq1, ql1 = sq0[:b1], ql0[:b1]
                    a, b = (0, len(sq1)) if c.qcut == "0" else spec_index([ord(x) - c.qbase for x in ql1], cf, cb)
                    if sq != sq1[a:b] or ql != ql1[a:b]:
                        ctx.violation("system: --nextseq-trim followed by -q does not trim as the two rules say",
                                      {"case": ["system", res["argv"][5:-1]], "reads": [list(x) for x in reads], "observed": [nm, sq, ql], "expected": [sq1[a:b], ql1[a:b]],
                                       "why": "read %s: --nextseq-trim %d then -q %s gives %r, the rules give %r" % (nm, c.nextseq, c.qcut, sq, sq1[a:b])})
                        break
            if c.qcut is None and c.nextseq is not None:
                # --nextseq-trim alone: the 3' rule with every G counted as cutoff - 1, qualities decoded with the given base
                for (nm, sq, ql), (_, sq0, ql0) in zip(res["files"].get(0, []), cut_only["files"].get(0, [])):
                    b = spec_3p([(c.nextseq - 1) if bb == "G" else (ord(x) - c.qbase) for bb, x in zip(sq0, ql0)], c.nextseq)
                    if sq != sq0[:b] or ql != ql0[:b]:
                        ctx.violation("system: --nextseq-trim at the command line does not trim as the rule says",
                                      {"case": ["system", res["argv"][5:-1]], "reads": [list(x) for x in reads], "observed": [nm, sq, ql], "expected": [sq0[:b], ql0[:b]],
                                       "why": "read %s: --nextseq-trim %d (quality base %d) gives %r, the rule gives %r" % (nm, c.nextseq, c.qbase, sq, sq0[:b])})
                        break
            if c.qbase == 64 and all(ord(x) >= 64 for _, _, ql in reads for x in ql):
                # the base only shifts the scale: the same values written with base 33 are trimmed at the same places
                c33 = S.Cfg.from_json(c.to_json())
                c33.qbase = 33
                r33 = S.run_impl(c33, [(nm, sq, "".join(chr(ord(x) - 31) for x in ql)) for nm, sq, ql in reads], d)
                s64 = [sq for _, sq, _ in res["files"].get(0, [])]
                s33 = [sq for _, sq, _ in r33["files"].get(0, [])]
                if r33["exit"] == 0 and s64 != s33:
                    ctx.violation("system: the quality base changes where reads are trimmed",
                                  {"case": ["system", res["argv"][5:-1]], "reads": [list(x) for x in reads], "observed": s64, "expected": s33,
                                   "why": "the same Phred values give %r with base 64 and %r with base 33" % (s64, s33)})
            if rep != before - after:
                ctx.violation("system: reported quality-trimmed bases differ from the bases removed",
                              {"case": ["system", res["argv"][5:-1]], "reads": [list(x) for x in reads], "observed": rep, "expected": before - after,
                               "why": "report says %d bp quality-trimmed, %d were removed" % (rep, before - after)})
    # paired-end: the figures reported for R1 and for R2 are what the quality-trimming steps removed from that mate
    from .. import pairutil as P
    from .. import pairprops as PP
    npair = 0
    with S.Scratch() as d:
        for _ in range(ctx.size(15, 150)):
            b = S.Cfg()
            r = rng.random()
            if r < 0.7:
                b.nextseq = rng.choice([5, 10, 20, 30])
            if r > 0.4:
                b.qcut = rng.choice(["10", "20", "15,10", "5,0"])
            pc = P.PCfg(base=b)
            minrep = rng.random() < 0.5   # the one-line report names the removed bases per mate too
            if b.qcut is not None and rng.random() < 0.5:
                pc.qcut2 = rng.choice(["0", "25", "10,20"])
            if rng.random() < 0.3:
                b.cuts = (rng.choice([1, 3, -2]),)
            pairs = []
            for i in range(rng.choice([1, 4, 8])):
                a1, a2 = S.make_read(rng, i, [], False), S.make_read(rng, i, [], False)
                pairs.append((("r%d" % i, a1[1], a1[2]), ("r%d" % i, a2[1], a2[2])))
            res = P.run_impl(pc, pairs, d)
            npair += 1
            ctx.count(("sys-paired", json.dumps(pc.to_json(), sort_keys=True), len(pairs)), True)
            if res["exit"] != 0:
                ctx.violation("system: implementation fails (paired)", {"argv": res["argv"], "pairs": [[list(x), list(y)] for x, y in pairs], "exit": res["exit"]})
                continue
            why = PP.oracle_step_counts({"cfg": pc, "pairs": pairs, "impl": res}, d)
            if not why and minrep:
                from .. import sysprops as SP
                md = os.path.join(d, "minrep")
                os.makedirs(md, exist_ok=True)
                why, _ = SP.minimal_report_rerun("paired", pc, pairs, md)
            if why:
                ctx.violation("system: reported quality-trimmed bases per mate differ from the bases removed",
                              {"case": ["system-paired", pc.to_json()], "pairs": [[list(x), list(y)] for x, y in pairs], "why": why})
    dist["system/quality_trimmed_count_paired"] = npair
    dist["system/quality_trimmed_count"] = nsys
    ctx.coverage["search_note"] = "the oracle (direct suffix-sum restatement of the BWA rule) was run on all %d cases of this run" % len(cases)


def json_key(c):
    import json

    return json.dumps(c.to_json(), sort_keys=True)


def replay(doc):
    c = doc["replay"]["case"]
    if c[0] == "system":
        print("system-level case; rerun: cutadapt", " ".join(c[1]), "on the reads in this file")
        return 1
    if c[0] == "parse_cutoffs":
        from cutadapt.cli import parse_cutoffs

        print(parse_cutoffs(c[1]))
        return 0
    out = impl_run(tuple(c))
    why = oracle(tuple(c), out)
    print("case", c, "->", out, "|", why or "property holds on this input")
    return 1 if why else 0
