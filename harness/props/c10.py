"""C10 -- see harness/sysprops.py (system-level check: proof obligations of coq/Properties/C10.v,
pipeline-model correspondence with cutadapt.cli.main, oracle_C10 on the implementation's outputs)."""
from .. import sysprops


def check(ctx):
    sysprops.run(ctx, "C10")


def replay(doc):
    return sysprops.replay(doc, "C10")
