"""C04 -- see harness/sysprops.py (system-level check: proof obligations of coq/Properties/C04.v,
pipeline-model correspondence with cutadapt.cli.main, oracle_C04 on the implementation's outputs)."""
from .. import sysprops


def check(ctx):
    sysprops.run(ctx, "C04")


def replay(doc):
    return sysprops.replay(doc, "C04")
