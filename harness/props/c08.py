"""C08 -- an adapter index changes only speed, never what is found.
Proof: coq/Properties/C08.v on Model/Index.v (the dictionary as a function: fold over the adapters of "is this string in
the neighbourhood, with which errors/matches", replacement and ambiguity rule; the look-up of successively shorter
affixes).  Correspondence: IndexedPrefixAdapters / IndexedSuffixAdapters of the rebuilt working tree vs the extracted
model on generated adapter sets x reads (match, coordinates, errors, score), the index's string lengths, and the content
of the dictionary on probe strings.  Oracle (search only; implementation only): textbook edit / Hamming distance of
every anchored affix to every adapter: soundness of a reported match, 'exactly one adapter occurs => it is reported',
agreement with the one-by-one search and independence of the adapter order for equal lengths without indels."""
import json
import os

from .. import core, buildimpl
from .. import alignutil as U

RATES = [0.0, 0.1, 0.13, 0.15, 0.2, 0.25, 0.3, 0.34]


def k_of(seq, rate):
    return int(rate * len(seq))


def rand_adapter_set(rng):
    prefix = rng.random() < 0.5
    n = rng.choice([2, 2, 3, 3, 4, 5])
    equal = rng.random() < 0.5
    mode = rng.choice(["indels", "noindels", "noindels", "mixed"])
    base_len = rng.choice([4, 5, 6, 7, 8, 9, 10])
    similar = rng.random() < 0.6
    base = U.rand_seq(rng, base_len, "ACGT")
    ads = []
    tries = 0
    while len(ads) < n and tries < 50:
        tries += 1
        L = base_len if equal else rng.choice([4, 5, 6, 7, 8, 9, 10])
        if similar:
            s = U.mutate(rng, base, rng.choice([1, 1, 2]), "ACGT", "s" if equal else "sid")
            if equal:
                s = (s + base)[:L]
            elif len(s) < 3:
                continue
        else:
            s = U.rand_seq(rng, L, "ACGT")
        if any(a["seq"] == s for a in ads) or len(s) < 3:
            continue
        rate = rng.choice(RATES)
        indels = {"indels": True, "noindels": False, "mixed": rng.random() < 0.5}[mode]
        k = k_of(s, rate)
        if k > 3 or (k == 3 and indels and len(s) > 7) or (k == 2 and indels and len(s) > 9):
            rate = 0.1
        ads.append({"seq": s, "rate": rate, "indels": indels})
    if equal and rng.random() < 0.5:
        r = rng.choice(RATES[:6])
        for a in ads:
            a["rate"] = r
    return {"prefix": prefix, "adapters": ads}


def rand_reads(rng, aset, n):
    reads = []
    ads = aset["adapters"]
    pre = aset["prefix"]
    for _ in range(n):
        a = rng.choice(ads)
        r = rng.random()
        tail = U.rand_seq(rng, rng.choice([0, 0, 1, 3, 8]), "ACGT")
        if r < 0.15:
            core_ = a["seq"]
            tail = tail if rng.random() < 0.5 else ""
        elif r < 0.55:
            core_ = U.mutate(rng, a["seq"], rng.choice([1, 1, 2, 3, 4]), "ACGT", "sid" if a["indels"] else "s")
        elif r < 0.7:
            # shorter than the adapter: a piece of it
            L = rng.randint(0, len(a["seq"]))
            core_ = a["seq"][:L] if rng.random() < 0.5 else a["seq"][len(a["seq"]) - L:]
            tail = ""
        elif r < 0.8:
            core_ = U.rand_seq(rng, rng.randint(0, 12), "ACGT")
        elif r < 0.9:
            # an N at the anchored end (the N fallback of the index); with indels also shifted copies, and a tail behind them
            core_ = U.mutate(rng, a["seq"], rng.choice([0, 1, 1, 2]), "ACGTN", "sid" if a["indels"] and rng.random() < 0.6 else "s")
            if "N" not in core_ and core_:
                p = rng.randrange(len(core_))
                core_ = core_[:p] + "N" + core_[p + 1:]
        else:
            core_ = U.mutate(rng, a["seq"], rng.choice([0, 1]), "ACGT", "s").lower()
        reads.append(core_ + tail if pre else tail + core_)
    return reads


def build(aset, order=None):
    import cutadapt.adapters as A

    cls = A.PrefixAdapter if aset["prefix"] else A.SuffixAdapter
    ads = aset["adapters"] if order is None else [aset["adapters"][i] for i in order]
    objs = [cls(a["seq"], max_errors=a["rate"], min_overlap=3, read_wildcards=False, adapter_wildcards=False, indels=a["indels"], name="ad%d" % i)
            for i, a in enumerate(ads)]
    return objs


def impl_index(aset, order=None):
    import cutadapt.adapters as A

    objs = build(aset, order)
    idx = (A.IndexedPrefixAdapters if aset["prefix"] else A.IndexedSuffixAdapters)(objs)
    return objs, idx


def mt(objs, m):
    if m is None:
        return None
    return (objs.index(m.adapter), m.rstart, m.rstop, m.errors, m.score)


def ads_field(aset):
    out = []
    for a in aset["adapters"]:
        m = len(a["seq"])
        out.append("%d,%s,0 0 %d 0,%d,%s" % (6 if aset["prefix"] else 7, U.enc(a["seq"]), int(a["indels"]), m, " ".join(map(str, U.thr_table(a["rate"], m)))))
    return ";".join(out)


# ---------------------------------------------------------------- oracle (implementation only)
def dist(a, affix):
    eq = lambda x, y: x == y
    if a["indels"]:
        return U.edit_distance(affix, a["seq"], eq)
    return U.hamming(affix, a["seq"], eq)


def occurrences(aset, read):
    """{adapter rank: [(affix length, distance)]} for every anchored affix within tolerance"""
    occ = {}
    for i, a in enumerate(aset["adapters"]):
        k = k_of(a["seq"], a["rate"])
        for L in range(0, len(read) + 1):
            affix = read[:L] if aset["prefix"] else read[len(read) - L:]
            d = dist(a, affix)
            if d is not None and d <= k:
                occ.setdefault(i, []).append((L, d))
    return occ


def genuine(aset, read, res):
    """first sentence of C08 = C01 for matches that come out of the index: coordinates, anchoring, tolerance, exact error count"""
    probs = []
    n = len(read)
    ru = read.upper()
    if res is not None:
        i, rs, re, e, sc = res
        a = aset["adapters"][i]
        k = k_of(a["seq"], a["rate"])
        if not (0 <= rs <= re <= n) or (aset["prefix"] and rs != 0) or (not aset["prefix"] and re != n):
            probs.append("coordinates outside the read or not anchored")
        else:
            d = dist(a, ru[rs:re])
            if d is None or d > k:
                probs.append("the removed affix is not within the adapter's tolerance")
            elif d != e:
                probs.append("reported errors are not the exact distance")
    return probs


def oracle(aset, read, res, one_by_one, shuffled):
    """res, one_by_one, shuffled: match tuples (rank, rstart, rstop, errors, score) or None; -> list of problems"""
    probs = []
    n = len(read)
    ru = read.upper()   # the index looks at the upper-cased read; an N in the read matches nothing (read wildcards are off)
    if res is not None:
        # first sentence of the property: every reported match is a genuine anchored occurrence -- for all reads
        i, rs, re, e, sc = res
        a = aset["adapters"][i]
        k = k_of(a["seq"], a["rate"])
        if not (0 <= rs <= re <= n) or (aset["prefix"] and rs != 0) or (not aset["prefix"] and re != n):
            probs.append("coordinates outside the read or not anchored")
        else:
            d = dist(a, ru[rs:re])
            if d is None or d > k:
                probs.append("the removed affix is not within the adapter's tolerance" + (" (read with N)" if "N" in ru else ""))
            elif d != e:
                probs.append("reported errors are not the exact distance" + (" (read with N)" if "N" in ru else ""))
    if set(read) - set("ACGT"):
        return probs
    occ = occurrences(aset, read)
    if len(occ) == 1:
        (i, _), = occ.items()
        if res is None or res[0] != i:
            probs.append("exactly one adapter occurs within tolerance but the index does not report it")
    ads = aset["adapters"]
    if all(not a["indels"] for a in ads) and len({len(a["seq"]) for a in ads}) == 1:
        L = len(ads[0]["seq"])
        if n >= L:
            affix = read[:L] if aset["prefix"] else read[n - L:]
            # the two nearest adapters = nearest among those that occur within their own tolerance
            ds = sorted((dist(a, affix), i) for i, a in enumerate(ads) if dist(a, affix) <= k_of(a["seq"], a["rate"]))
            if len(ds) < 2 or ds[0][0] != ds[1][0]:
                # not equally close to its two nearest adapters
                if (res is None) != (one_by_one is None) or (res is not None and (res[0] != one_by_one[0] or res[1:3] != one_by_one[1:3])):
                    probs.append("indexed and one-by-one search disagree")
                if (res is None) != (shuffled is None) or (res is not None and ads[res[0]]["seq"] != shuffled):
                    probs.append("the result depends on the order of the adapters")
    return probs


def check(ctx):
    ctx.coq()
    ctx.model()
    buildimpl.activate()
    import logging
    import cutadapt.adapters as A

    logging.disable(logging.CRITICAL)  # the "adapters are too similar" warnings
    rng = ctx.rng
    dist_ = {}
    nsets = ctx.size(500, 6000)
    nreads = 14
    lines, meta = [], []
    sets_for_cli = []
    corpus = []
    cp = os.path.join(core.VERIF, "corpus", "C08.json")
    if os.path.exists(cp):
        corpus = json.load(open(cp))
    for c in range(nsets + len(corpus)):
        if c < len(corpus):
            aset, reads = corpus[c]["aset"], corpus[c]["reads"]
        else:
            aset = rand_adapter_set(rng)
            if len(aset["adapters"]) < 2:
                continue
            reads = rand_reads(rng, aset, nreads)
        try:
            objs, idx = impl_index(aset)
        except Exception as e:  # noqa
            dist_["index construction refused"] = dist_.get("index construction refused", 0) + 1
            continue
        order = list(range(len(objs)))
        rng.shuffle(order)
        objs_s, idx_s = impl_index(aset, order)
        multi = A.MultipleAdapters(objs)
        field = ads_field(aset)
        # lengths
        lines.append("ilengths %d|%s" % (int(aset["prefix"]), field))
        meta.append(("lengths", aset, None, " ".join(map(str, idx._index._lengths))))
        kinds = {a["indels"] for a in aset["adapters"]}
        dist_["indels" if kinds == {True} else "no indels" if kinds == {False} else "mixed"] = dist_.get("indels" if kinds == {True} else "no indels" if kinds == {False} else "mixed", 0) + 1
        dist_["equal lengths" if len({len(a["seq"]) for a in aset["adapters"]}) == 1 else "different lengths"] = dist_.get("equal lengths" if len({len(a["seq"]) for a in aset["adapters"]}) == 1 else "different lengths", 0) + 1
        dist_["ambiguous strings>0"] = dist_.get("ambiguous strings>0", 0) + (1 if idx._index._ambiguous else 0)
        for read in reads:
            try:
                m = idx.match_to(read)
                res = mt(objs, m)
            except Exception as e:  # noqa
                res = ("EXC", type(e).__name__)
            lines.append("index %d|%s|%s" % (int(aset["prefix"]), field, U.enc(read)))
            meta.append(("match", aset, read, "None" if res is None else " ".join(map(str, res))))
            # oracle inputs
            ob = mt(objs, multi.match_to(read))
            ms = idx_s.match_to(read)
            sh = None if ms is None else ms.adapter.sequence
            if isinstance(res, tuple) and res and res[0] == "EXC":
                ctx.violation("index look-up raises " + res[1], {"aset": aset, "read": read, "what": ["exception " + res[1]]}, True)
                continue
            probs = oracle(aset, read, res, ob, sh)
            nontrivial = res is not None
            ctx.count((json.dumps(aset, sort_keys=True), read), nontrivial)
            dist_["match" if res is not None else "no match"] = dist_.get("match" if res is not None else "no match", 0) + 1
            if len(read) < max(len(a["seq"]) for a in aset["adapters"]):
                dist_["read shorter than longest adapter"] = dist_.get("read shorter than longest adapter", 0) + 1
            if "N" in read:
                dist_["read with N"] = dist_.get("read with N", 0) + 1
            if probs:
                ctx.violation("index: " + probs[0], {"aset": aset, "read": read, "indexed": res, "one_by_one": ob, "what": probs}, True)
            # dictionary content on the affixes of this read
            for L in sorted({len(a["seq"]) for a in aset["adapters"]})[:2]:
                s = (read[:L] if aset["prefix"] else read[len(read) - L:]).upper()
                if not s or set(s) - set("ACGT"):
                    continue
                ent = idx._index._index.get(s)
                lines.append("ilookup %d|%s|%s" % (int(aset["prefix"]), field, U.enc(s)))
                meta.append(("lookup", aset, s, "None" if ent is None else "%d %d %d" % (objs.index(ent[0]), ent[1], ent[2])))
        if c < 4:
            ctx.sample({"prefix": aset["prefix"], "adapters": aset["adapters"], "reads": reads[:4]})
        if c % 8 == 0:
            sets_for_cli.append((aset, reads))
    try:
        cli_part(ctx, sets_for_cli, dist_)
    except Exception as e:  # noqa
        import traceback

        ctx.broken.append("cli part crashed: %s: %s" % (type(e).__name__, e))
        ctx.notes["cli_part_traceback"] = traceback.format_exc()[-1500:]
    mo = core.model_run(lines)
    bad = {}
    for (kind, aset, x, impl), m in zip(meta, mo):
        if impl != m:
            bad.setdefault(kind, []).append({"aset": aset, "input": x, "implementation": impl, "model": m})
    ctx.notes.setdefault("correspondence", {})["AdapterIndex"] = {"cases": len(lines), "disagreements": {k: len(v) for k, v in bad.items()}}
    for kind, lst in bad.items():
        ctx.violation("correspondence AdapterIndex (%s): implementation and Model/Index.v disagree on %d cases" % (kind, len(lst)), {"first": lst[:5]}, False)
    ctx.coverage["rule"] = (
        "sets of 2-5 anchored 5' or 3' adapters over ACGT (lengths 3-10, equal or different, derived from a common base by 1-2 edits in 60% of the sets, "
        "0-3 allowed errors, indels on / off / mixed) x 14 reads each (the adapter itself, 1-4 edits of it, pieces shorter than the adapter, random, with N, lower case; "
        "with and without a tail); non-trivial = the index reports a match; distinct by (adapter set, read)")
    ctx.coverage["input_distribution"] = dist_
    ctx.coverage["search_note"] = "the textbook-distance oracle (soundness, unique occurrence, agreement with one-by-one search, order independence) ran on every case"


def cli_run(aset, reads, d, index):
    """cutadapt at the command line with and without --no-index; -> {read name: (adapter name, sequence)}"""
    import io
    import sys
    import cutadapt.cli as cli
    from .. import sysutil as S

    for f in os.listdir(d):
        os.remove(os.path.join(d, f))
    with open(os.path.join(d, "in.fasta"), "w") as f:
        for i, r in enumerate(reads):
            f.write(">r%d\n%s\n" % (i, r))
    argv = ["-j", "1", "-o", os.path.join(d, "out.fasta"), "-y", " {name}"]
    if not index:
        argv.append("--no-index")
    for i, a in enumerate(aset["adapters"]):
        spec = "ad%d=%s%s%s;e=%r%s" % (i, "^" if aset["prefix"] else "", a["seq"], "" if aset["prefix"] else "$", a["rate"], "" if a["indels"] else ";noindels")
        argv += ["-g" if aset["prefix"] else "-a", spec]
    argv += ["--no-match-adapter-wildcards", os.path.join(d, "in.fasta")]
    S.reset_impl_state()
    old = sys.stdout, sys.stderr
    sys.stdout, sys.stderr = io.StringIO(), io.StringIO()
    try:
        cli.main(argv)
    except SystemExit as e:
        if e.code not in (0, None):
            return None
    finally:
        sys.stdout, sys.stderr = old
    out = {}
    for name, seq, _ in S.read_records(os.path.join(d, "out.fasta")):
        rid, _, ad = name.partition(" ")
        out[rid] = (ad, seq)
    return out


def cli_part(ctx, sets, dist_):
    """AdapterCutter(index=True) vs --no-index at the command line, on the reads for which the property demands agreement"""
    d = os.path.join(buildimpl.scratch_root(), "c08")
    os.makedirs(d, exist_ok=True)
    try:
        for aset, reads in sets:
            reads = [r for r in reads if r and not (set(r) - set("ACGT"))]
            if not reads:
                continue
            a = cli_run(aset, reads, d, True)
            b = cli_run(aset, reads, d, False)
            if a is None or b is None:
                dist_["cli rejected"] = dist_.get("cli rejected", 0) + 1
                continue
            ads = aset["adapters"]
            equal_noindel = all(not x["indels"] for x in ads) and len({len(x["seq"]) for x in ads}) == 1
            for i, r in enumerate(reads):
                rid = "r%d" % i
                occ = occurrences(aset, r)
                ctx.count(("cli", json.dumps(aset, sort_keys=True), r), a.get(rid, ("", ""))[0] != "no_adapter")
                dist_["cli reads"] = dist_.get("cli reads", 0) + 1
                problem = None
                if len(occ) == 1:
                    want = "ad%d" % list(occ)[0]
                    if a.get(rid, ("",))[0] != want:
                        problem = "exactly one adapter (%s) occurs within tolerance but the indexed run reports %r" % (want, a.get(rid))
                if problem is None and equal_noindel and len(r) >= len(ads[0]["seq"]):
                    L = len(ads[0]["seq"])
                    affix = r[:L] if aset["prefix"] else r[len(r) - L:]
                    ds = sorted(dist(x, affix) for x in ads if dist(x, affix) <= k_of(x["seq"], x["rate"]))
                    if (len(ds) < 2 or ds[0] != ds[1]) and a.get(rid) != b.get(rid):
                        problem = "with the index %r, with --no-index %r" % (a.get(rid), b.get(rid))
                if problem:
                    ctx.violation("index at the command line: " + problem.split(" (")[0].split(" %")[0][:60], {"aset": aset, "read": r, "what": [problem], "cli": True}, True)
    finally:
        import shutil

        shutil.rmtree(d, ignore_errors=True)


def replay(doc):
    r = doc["replay"]
    if "aset" not in r:
        print("C08 replay: correspondence break, see 'first' in the replay file")
        return 1
    import cutadapt.adapters as A

    aset, read = r["aset"], r["read"]
    objs, idx = impl_index(aset)
    res = mt(objs, idx.match_to(read))
    ob = mt(objs, A.MultipleAdapters(objs).match_to(read))
    order = list(reversed(range(len(objs))))
    objs_s, idx_s = impl_index(aset, order)
    ms = idx_s.match_to(read)
    probs = oracle(aset, read, res, ob, None if ms is None else ms.adapter.sequence)
    print("C08 replay: adapters=%r read=%r indexed=%r one-by-one=%r -> %s" % (aset["adapters"], read, res, ob, probs or "property holds"))
    return 1 if probs else 0
