"""C15 -- see harness/sysprops.py (system-level check: proof obligations of coq/Properties/C15.v,
pipeline-model correspondence with cutadapt.cli.main, oracle_C15 on the implementation's outputs)."""
from .. import sysprops


def check(ctx):
    sysprops.run(ctx, "C15")


def replay(doc):
    return sysprops.replay(doc, "C15")
