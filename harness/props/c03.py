"""C03 -- see harness/sysprops.py (system-level check: proof obligations of coq/Properties/C03.v,
pipeline-model correspondence with cutadapt.cli.main, oracle_C03 on the implementation's outputs)."""
from .. import sysprops


def check(ctx):
    sysprops.run(ctx, "C03")


def replay(doc):
    return sysprops.replay(doc, "C03")
