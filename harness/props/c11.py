"""C11 -- see harness/sysprops.py (system-level check: proof obligations of coq/Properties/C11.v,
pipeline-model correspondence with cutadapt.cli.main, oracle_C11 on the implementation's outputs)."""
from .. import sysprops


def check(ctx):
    sysprops.run(ctx, "C11")


def replay(doc):
    return sysprops.replay(doc, "C11")
