"""C05 -- paired-end outputs stay synchronized; pairs are filtered as a unit.
Proof: coq/Properties/C05.v.  Correspondence: cutadapt.cli.main on paired option sets (two files or interleaved in/out,
all pair-filter modes, one-sided length bounds, redirect files, demultiplexing incl. combinatorial, --pair-adapters,
paired --revcomp) vs the extracted paired pipeline model (Model/Paired.v).  Oracle (search only, implementation outputs
only): harness/pairprops.py -- zip the produced files and compare record ids and order; every pair in at most one
destination; the documented pair decision recomputed from single-end runs of each mate."""
from .. import core, buildimpl, pairprops


def check(ctx):
    ctx.coq()
    ctx.model()
    buildimpl.activate()
    dist = {}
    results = pairprops.paired_part(ctx, "C05", ctx.size(450, 7000), dist)
    for ent in results:
        if ent.get("skip"):
            continue
        pcfg = ent["cfg"]
        for k, v in (("pair_filter=" + str(pcfg.pair_filter), True), ("interleaved_in", pcfg.interleaved_in), ("interleaved_out", pcfg.interleaved_out),
                     ("pair_adapters", pcfg.pair_adapters), ("combinatorial", pcfg.combinatorial), ("demux", pcfg.base.demux),
                     ("revcomp", pcfg.base.revcomp), ("one_sided_adapters", bool(pcfg.base.adapters) != bool(pcfg.adapters2))):
            if v:
                dist[k] = dist.get(k, 0) + 1
    ctx.coverage["rule"] = (
        "random valid paired-end option sets (two input files or interleaved, two output files or interleaved, --pair-filter any/both/first/absent, "
        "-m/-M as LEN, LEN:LEN2, LEN:, :LEN2, redirect files, {name} and {name1}/{name2} demultiplexing, --pair-adapters, paired --revcomp, -U/-Q/-L), "
        "1-10 pairs each; non-trivial = the implementation ran the case to completion; distinct by full case")
    ctx.coverage["input_distribution"] = dist
    k = 0
    for ent in results:
        if not ent.get("skip") and k < 4:
            k += 1
            ctx.sample({"argv": [a for a in ent["impl"]["argv"][3:] if not a.startswith("/var")], "pairs": ent["pairs"][:1]})
    ctx.coverage["search_note"] = "oracle_C05 (zip of the produced files, one destination per pair, documented pair decision from single-end runs) ran on all %d cases" % len(results)


def replay(doc):
    return pairprops.replay(doc, "C05")
