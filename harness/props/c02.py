"""C02 -- admissible occurrences are found; exact copies never survive.
Proof: coq/Properties/C02.v.  Correspondence: match_to (with the real prefilter) of all
eight classes vs the extracted model (Model/Kmer.v match_to_prefiltered).
Oracle (search only): (i) a planted occurrence whose admissibility is verified directly on
its own interval (textbook distance) must be reported; (ii) small-scope brute force over all
admissible interval quadruples; (iii) cut-position clauses against the leftmost/rightmost
exact full copy."""
import itertools
import json
import os

from .. import core, buildimpl
from .. import alignutil as U

TOLERANT_WITH_INDELS = {"Back", "NonInternalBack", "Suffix", "Prefix", "RightmostFront"}


def admissible(spec, ad, read, a0, a1, r0, r1, eq):
    seq = ad.sequence
    m, n = len(seq), len(read)
    if not (0 <= a0 <= a1 <= m and 0 <= r0 <= r1 <= n):
        return None
    if not U.placement_ok(U.doc_flags(spec), m, n, a0, a1, r0, r1):
        return None
    if a1 - a0 < min(spec.min_overlap, m):   # the minimum overlap as given, capped at the adapter length (documented behaviour)
        return None
    if ad.indels:
        d = U.edit_distance(seq[a0:a1], read[r0:r1], eq)
    else:
        d = U.hamming(seq[a0:a1], read[r0:r1], eq)
        if d is None:
            return None
    if d > int(ad.max_error_rate * U.non_n(seq[a0:a1], ad.adapter_wildcards)):
        return None
    return d


def all_admissible(spec, ad, read, eq, only_exact=False):
    """brute force (small scope only): yields (a0,a1,r0,r1,d)"""
    m, n = len(ad.sequence), len(read)
    fl = U.doc_flags(spec)
    for a0 in range(0, m + 1):
        if a0 and not fl & 1:
            break
        for a1 in range(a0, m + 1):
            if a1 != m and not fl & 4:
                continue
            for r0 in range(0, n + 1):
                if r0 and (not fl & 2 or a0):
                    break
                for r1 in range(r0, n + 1):
                    if r1 != n and (not fl & 8 or a1 != m):
                        continue
                    d = admissible(spec, ad, read, a0, a1, r0, r1, eq)
                    if d is not None and (d == 0 or not only_exact):
                        yield (a0, a1, r0, r1, d)


def exact_copies(seq, read, eq):
    m = len(seq)
    return [p for p in range(0, len(read) - m + 1) if all(eq(a, b) for a, b in zip(seq, read[p:p + m]))]


def must_report(spec, ad, d):
    """does the statement promise a report for an admissible occurrence at distance d"""
    if d == 0:
        return True
    return (not ad.indels) or (spec.typ in TOLERANT_WITH_INDELS and not (spec.force_anywhere and spec.typ in ("Back", "RightmostFront")))


def oracle_cut(spec, ad, read, mt, eq):
    seq = ad.sequence
    m = len(seq)
    if spec.force_anywhere:
        return None
    copies = exact_copies(seq, read, eq)
    if not copies:
        return None
    if mt is None:
        if spec.typ in ("Back", "Front", "RightmostFront", "Anywhere"):
            return "exact full copy at %d but no match reported" % copies[0]
        return None
    if spec.typ == "Back" and mt.rstart > copies[0]:
        return "3' adapter cut at %d, after the leftmost exact copy at %d" % (mt.rstart, copies[0])
    if spec.typ == "Front" and mt.rstop > copies[0] + m:
        return "5' adapter cut at %d, after the end %d of the leftmost exact copy" % (mt.rstop, copies[0] + m)
    if spec.typ == "RightmostFront" and mt.rstop < copies[-1] + m:
        return "rightmost 5' adapter cut at %d, before the end %d of the rightmost exact copy" % (mt.rstop, copies[-1] + m)
    if spec.typ == "Prefix" and 0 in copies and (mt.rstart, mt.rstop) != (0, m):
        return "anchored 5' exact copy not removed exactly: [%d,%d)" % (mt.rstart, mt.rstop)
    if spec.typ == "Suffix" and (len(read) - m) in copies and (mt.rstart, mt.rstop) != (len(read) - m, len(read)):
        return "anchored 3' exact copy not removed exactly: [%d,%d)" % (mt.rstart, mt.rstop)
    return None


def plant(rng, spec, seq):
    """returns (read, (a0,a1,r0,r1)) with an occurrence planted according to the placement rule"""
    m = len(seq)
    fl = U.doc_flags(spec)
    alpha = rng.choice(["ACGT", "ACGT", "ACGTN", "AC"])
    a0 = rng.randint(0, m - 1) if (fl & 1 and rng.random() < 0.4) else 0
    a1 = rng.randint(max(a0 + 1, 1), m) if (fl & 4 and rng.random() < 0.4) else m
    if a0 and a1 != m and rng.random() < 0.7:
        a1 = m
    seg = seq[a0:a1]
    k = rng.choice([0, 0, 0, 1, 1, 2])
    seg2 = U.mutate(rng, seg, k, "ACGT", "sid" if spec.indels else "s")
    left = U.rand_seq(rng, rng.choice([0, 1, 2, 3, 6, 10]), alpha) if (fl & 2 and a0 == 0) else ""
    right = U.rand_seq(rng, rng.choice([0, 1, 2, 3, 6, 10]), alpha) if (fl & 8 and a1 == m) else ""
    read = left + seg2 + right
    return read, (a0, a1, len(left), len(left) + len(seg2))


def check(ctx):
    ctx.coq()
    ctx.model()
    buildimpl.activate()
    rng = ctx.rng
    model_ok = not any("extraction" in b for b in ctx.broken)
    dist = {}
    lines, impl_out, meta = [], [], []
    groups = []
    cpath = os.path.join(core.VERIF, "corpus", "C02.json")
    if os.path.exists(cpath):
        for e in json.load(open(cpath)):
            groups.append((U.AdSpec.from_json(e["adapter"]), [(e["read"], None)], True))
    # planted occurrences
    for _ in range(ctx.size(2500, 40000)):
        spec = U.rand_spec(rng, maxlen=rng.choice([5, 8, 10, 14]))
        seq = spec.seq.upper()
        cases = [plant(rng, spec, seq) for _ in range(6)]
        # several copies: inexact copy + gap + exact copy + partial tail (the cut-position clauses)
        if spec.typ in ("Back", "Front", "RightmostFront"):
            r = U.mutate(rng, seq, 1, "ACGT") + U.rand_seq(rng, rng.randint(0, 4), "ACGT") + seq + seq[: rng.randint(0, len(seq))]
            cases.append((U.rand_seq(rng, rng.randint(0, 3), "ACGT") + r, None))
            cases.append((seq + U.rand_seq(rng, rng.randint(0, 3), "ACGT") + seq + U.rand_seq(rng, rng.randint(0, 3), "ACGT"), None))
        groups.append((spec, cases, False))
    # exhaustive small scope
    la, lr = ctx.size(3, 3), ctx.size(5, 6)
    ex_reads = [("".join(t), None) for n in range(0, lr + 1) for t in itertools.product("ACN", repeat=n)]
    for typ in U.TYPES:
        for m in range(1, la + 1):
            for t in itertools.product("ACN", repeat=m):
                seq = "".join(t)
                if set(seq) == {"N"}:
                    continue
                for rate, indels in ((0.0, True), (0.34, True), (0.5, False), (0.5, True)):
                    if ctx.quick and (U.stable_hash((typ, seq, rate)) % 5):
                        continue
                    groups.append((U.AdSpec(typ, seq, rate, 1 if m < 3 else 2, False, True, indels, False), ex_reads, True))
    for spec, cases, brute in groups:
        try:
            ad = spec.build()
        except Exception:
            continue
        eq = U.char_eq(ad.adapter_wildcards, ad.read_wildcards)
        pickled = False
        if not brute and rng.random() < 0.15:
            # what a worker process gets under the spawn / forkserver start methods: the adapter (with its aligner) through pickle
            import pickle
            try:
                ad = pickle.loads(pickle.dumps(ad))
                pickled = True
                dist["pickled adapters"] = dist.get("pickled adapters", 0) + 1
            except Exception as e:
                ctx.violation("adapter cannot be pickled", {"adapter": spec.to_json(), "why": "%s: %s" % (type(e).__name__, e)})
                continue
        for read, planted in cases:
            if not brute and rng.random() < 0.08:
                # soft-masked reads: matching is case-insensitive under every wildcard setting
                read = read.lower() if rng.random() < 0.5 else "".join(c.lower() if rng.random() < 0.3 else c for c in read)
            mt = ad.match_to(read)
            impl_out.append(U.match_tuple(mt))
            lines.append(U.model_line_matchto(ad, spec, read).replace("matchto ", "matchtopf ", 1))
            meta.append((spec, read))
            why = None
            promised = False
            if planted is not None:
                d = admissible(spec, ad, read, *planted, eq)
                if d is not None and must_report(spec, ad, d):
                    promised = True
                    if mt is None:
                        why = "admissible occurrence %s (distance %d) exists but no match is reported" % (list(planted), d)
            if brute and why is None:
                occ = list(all_admissible(spec, ad, read, eq))
                need = [o for o in occ if must_report(spec, ad, o[4])]
                if need:
                    promised = True
                    if mt is None:
                        why = "admissible occurrence %s exists but no match is reported" % (list(need[0]),)
            if why is None:
                why = oracle_cut(spec, ad, read, mt, eq)
            ctx.count((spec.key(), read), promised)
            key = "%s/%s" % (spec.typ, "promised" if promised else "free")
            dist[key] = dist.get(key, 0) + 1
            if why:
                ctx.violation("%s indels=%s: %s" % (spec.typ, ad.indels, why.split(" (")[0].split(" [")[0][:60]),
                              {"adapter": spec.to_json(), "read": read, "observed": U.match_tuple(mt), "why": why, "pickled": pickled,
                               "reproduce": "cd /verif && ./check replay <this file>"})
    # ---- anchored adapters given together are searched through the adapter index (the default at the command line): an
    # error-free copy of one of them at the anchored end, where no other adapter of the set occurs within its tolerance, is
    # removed exactly -- also when the read is nothing but the adapter
    from . import c08
    import logging

    logging.disable(logging.WARNING)
    try:
        for _ in range(ctx.size(80, 1500)):
            aset = c08.rand_adapter_set(rng)
            try:
                objs, idx = c08.impl_index(aset)
            except Exception:
                continue
            for i, a in enumerate(aset["adapters"]):
                nt = U.rand_seq(rng, rng.choice([0, 3, 9]), "ACGT")
                for tail in ("", U.rand_seq(rng, 1, "ACGT"), U.rand_seq(rng, rng.choice([2, 5, 9]), "ACGT"), ("N" + nt) if aset["prefix"] else (nt + "N")):
                    # (last form: an N right next to the copy -- the look-up of the longer affix with the N in it fails, the copy itself is still found)
                    read = a["seq"] + tail if aset["prefix"] else tail + a["seq"]
                    if set(c08.occurrences(aset, read)) != {i}:
                        continue
                    try:
                        res = c08.mt(objs, idx.match_to(read))
                    except Exception as e:
                        res = ("raises %s" % type(e).__name__,)
                    L, n = len(a["seq"]), len(read)
                    want = (i, 0, L, 0) if aset["prefix"] else (i, n - L, n, 0)
                    ctx.count(("indexed-exact", json.dumps(aset, sort_keys=True), read), True)
                    dist["indexed anchored exact copy"] = dist.get("indexed anchored exact copy", 0) + 1
                    if res is None or tuple(res[:4]) != want:
                        ctx.violation("anchored exact copy not removed exactly (adapter index in use)",
                                      {"aset": aset, "read": read, "observed": None if res is None else list(res), "expected": list(want),
                                       "why": "adapter %d of the set occurs without errors at the anchored end of %r and no other adapter occurs within its tolerance; "
                                              "the indexed search reports %r" % (i, read, res), "indexed": True})
        # ---- a set the adapter cutter regroups for the index (two or more anchored adapters of one kind) together with a single
        # anchored adapter of the other kind: an error-free copy of that one at its end of the read, where none of the others
        # occurs, is removed exactly as well
        import cutadapt.adapters as A
        from cutadapt.modifiers import AdapterCutter
        from cutadapt.info import ModificationInfo
        from dnaio import SequenceRecord
        for _ in range(ctx.size(60, 800)):
            aset = c08.rand_adapter_set(rng)
            lone_seq = U.rand_seq(rng, rng.choice([8, 10, 12]), "ACGT")
            filler = U.rand_seq(rng, rng.randint(14, 25), "ACGT")
            read = (filler + lone_seq) if aset["prefix"] else (lone_seq + filler)
            if c08.occurrences(aset, read):
                continue
            try:
                objs = c08.build(aset)
                lone = (A.SuffixAdapter if aset["prefix"] else A.PrefixAdapter)(lone_seq, max_errors=0.1, name="lone")
                pos = rng.randint(0, len(objs))
                cutter = AdapterCutter(objs[:pos] + [lone] + objs[pos:], times=1, action="trim", index=True)
                rec = SequenceRecord("r", read, "I" * len(read))
                got = cutter(rec, ModificationInfo(rec)).sequence
            except Exception as e:
                got = "raises %s" % type(e).__name__
            ctx.count(("indexed-lone", json.dumps(aset, sort_keys=True), read), True)
            dist["lone anchored adapter next to an indexed set"] = dist.get("lone anchored adapter next to an indexed set", 0) + 1
            if got != filler:
                ctx.violation("anchored exact copy not removed (adapter next to an indexed set)",
                              {"aset": aset, "lone": lone_seq, "position": pos, "read": read, "observed": got, "expected": filler, "indexed_lone": True,
                               "why": "the %s adapter %s occurs without errors at its end of %r and no adapter of the indexed set occurs; the cutter returns %r"
                                      % ("3' anchored" if aset["prefix"] else "5' anchored", lone_seq, read, got)})
    finally:
        logging.disable(logging.NOTSET)
    mod = core.model_run(lines) if model_ok else [None] * len(lines)
    bad = core.diff_cases(ctx, "match_to[with prefilter]", meta, impl_out, mod, None)
    for i in bad[:10]:
        ctx.violation("correspondence:match_to_prefiltered", {"adapter": meta[i][0].to_json(), "read": meta[i][1], "impl": impl_out[i], "model": mod[i]},
                      found_input=False)
    ctx.coverage["rule"] = (
        "reads with an occurrence planted according to the placement rule of the adapter type (0-2 edits; admissibility verified by textbook distance on the planted interval), "
        "multi-copy reads for the cut-position clauses, plus exhaustive adapters over {A,C,N} up to length %d x reads up to length %d with full enumeration of admissible "
        "interval quadruples; non-trivial = the statement promises a report for this case" % (la, lr)
    )
    ctx.coverage["input_distribution"] = dist
    for i in range(0, len(meta), max(1, len(meta) // 5)):
        ctx.sample({"adapter": meta[i][0].to_json(), "read": meta[i][1], "impl": impl_out[i]})
    ctx.coverage["search_note"] = "oracle_C02 (planted admissible occurrence / brute-force enumeration / cut clauses) was run on all %d cases" % len(meta)


def replay(doc):
    r = doc["replay"]
    if r.get("indexed_lone"):
        from . import c08
        buildimpl.activate()
        import cutadapt.adapters as A
        from cutadapt.modifiers import AdapterCutter
        from cutadapt.info import ModificationInfo
        from dnaio import SequenceRecord
        aset = r["aset"]
        objs = c08.build(aset)
        lone = (A.SuffixAdapter if aset["prefix"] else A.PrefixAdapter)(r["lone"], max_errors=0.1, name="lone")
        cutter = AdapterCutter(objs[:r["position"]] + [lone] + objs[r["position"]:], times=1, action="trim", index=True)
        rec = SequenceRecord("r", r["read"], "I" * len(r["read"]))
        got = cutter(rec, ModificationInfo(rec)).sequence
        print("adapter set", aset, "+ lone", r["lone"], "read", r["read"], "->", got, "| expected", r["expected"], "|", "property holds on this input" if got == r["expected"] else "exact copy not removed")
        return 0 if got == r["expected"] else 1
    if r.get("indexed"):
        from . import c08
        buildimpl.activate()
        objs, idx = c08.impl_index(r["aset"])
        res = c08.mt(objs, idx.match_to(r["read"]))
        ok = res is not None and list(res[:4]) == list(r["expected"])
        print("adapter set", r["aset"], "read", r["read"], "->", res, "| expected", r["expected"], "|", "property holds on this input" if ok else "exact copy not removed exactly")
        return 0 if ok else 1
    if "adapter" not in r:
        print(r)
        return 0
    spec = U.AdSpec.from_json(r["adapter"])
    ad = spec.build()
    if r.get("pickled"):
        import pickle
        ad = pickle.loads(pickle.dumps(ad))
    eq = U.char_eq(ad.adapter_wildcards, ad.read_wildcards)
    read = r["read"]
    mt = ad.match_to(read)
    why = None
    if len(read) <= 12 and len(ad.sequence) <= 8:
        need = [o for o in all_admissible(spec, ad, read, eq) if must_report(spec, ad, o[4])]
        if need and mt is None:
            why = "admissible occurrence %s exists but no match is reported" % (list(need[0]),)
    why = why or oracle_cut(spec, ad, read, mt, eq)
    print("adapter", r["adapter"], "read", read, "->", U.match_tuple(mt), "|", why or "property holds on this input")
    return 1 if why else 0
