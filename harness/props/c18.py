"""C18 -- adapter specifications mean what the documented notation says.
Proof: coq/Properties/C18.v.  Correspondence: make_adapters_from_specifications (class, sequence, rate,
overlap, wildcards, indels, force_anywhere, required flags, name) vs the extracted parser model, and the
CLI's exit status 2 for the invalid stream.  Oracle (search only): a table-driven reading of the
documentation applied to the AST the specification string was printed from."""
import os
import random
from fractions import Fraction

from .. import core, buildimpl
from .. import alignutil as U

KEY_SPELLINGS = {"max_errors": ["e", "max_errors", "max_error_rate", "error_rate"], "min_overlap": ["o", "min_overlap"]}


def rand_ast(rng, linked_ok=True, part=None):
    """part: None (stand-alone), 'front' or 'back' (component of a linked adapter)"""
    cmd = rng.choice(["a", "g", "b"]) if part is None else ("g" if part == "front" else "a")
    m = rng.choice([1, 2, 4, 5, 8, 12])
    alpha = rng.choice(["ACGT", "ACGT", "ACGTN", "ACGTURYI", "acgt", "ACGTN"])
    seq = "".join(rng.choice(alpha) for _ in range(m))
    if set(seq.upper().replace("I", "N")) <= {"N"}:
        seq = "A" + seq[1:]
    restriction = None
    if cmd != "b" and rng.random() < 0.5:
        restriction = rng.choice(["anchored", "noninternal"])
    ast = {"cmd": cmd, "seq": seq, "restriction": restriction, "params": {}, "name": None, "braces": None, "rightmost": False}
    if rng.random() < 0.4:
        ast["name"] = rng.choice(["ad", "x1", "my_adapter", "A"])
    if rng.random() < 0.2:
        # x{0} on a one-character adapter leaves nothing (or only X's, a backwards-compatibility special case): not generated
        ast["braces"] = (rng.randrange(len(seq)), rng.choice([0, 1, 2, 5] if len(seq) > 1 else [1, 2, 5]))
    if rng.random() < 0.45:
        ast["params"]["max_errors"] = rng.choice(["0", "0.1", "0.25", "0.5", "1", "2", "3", "0.0"])
    if rng.random() < (0.35 if restriction != "anchored" else 0.08):
        # (on an anchored adapter a minimum overlap is documented as rejected -- also on an anchored part of a linked adapter)
        ast["params"]["min_overlap"] = str(rng.choice([1, 2, 3, 5, 30]))
    if rng.random() < 0.3:
        ast["params"]["indels"] = rng.choice([True, False])
    if part is None and rng.random() < 0.15:
        ast["params"]["anywhere"] = True
    if part is None and cmd == "g" and restriction is None and rng.random() < 0.2:
        ast["rightmost"] = True
    if part is not None and rng.random() < 0.4:
        ast["params"]["required"] = rng.choice([True, False])
    return ast


def expand_seq(ast):
    seq = ast["seq"]
    if ast["braces"]:
        pos, n = ast["braces"]
        return seq[:pos] + seq[pos] * n + seq[pos + 1:]
    return seq


def show(rng, ast):
    seq = ast["seq"]
    if ast["braces"]:
        pos, n = ast["braces"]
        seq = seq[: pos + 1] + "{%d}" % n + seq[pos + 1:]
    r = ast["restriction"]
    if r == "anchored":
        seq = ("^" + seq) if ast["cmd"] == "g" else (seq + "$")
    elif r == "noninternal":
        xs = rng.choice(["X", "XX", "x", "XXX"])
        seq = (xs + seq) if ast["cmd"] == "g" else (seq + xs)
    s = seq
    if ast["name"] is not None:
        s = rng.choice(["%s=%s", "%s= %s", " %s=%s"]) % (ast["name"], s)
    parts = []
    for k, v in ast["params"].items():
        if k in KEY_SPELLINGS:
            parts.append("%s=%s" % (rng.choice(KEY_SPELLINGS[k]), v))
        elif k == "indels":
            parts.append("indels" if v else "noindels")
        elif k == "required":
            parts.append("required" if v else "optional")
        else:
            parts.append(k)
    if ast["rightmost"]:
        parts.append("rightmost")
    rng.shuffle(parts)
    for p in parts:
        s += rng.choice([";", "; ", " ;"]) + p
    if rng.random() < 0.1:
        s += ";"
    return s


def meaning(ast, g, file_name=None, file_params=None, file_anchor=None):
    """documented meaning of one non-linked AST -> dict, or None if the documentation says it is rejected"""
    cmd, r = ast["cmd"], ast["restriction"]
    if file_anchor == "^":
        r = "anchored"
    if file_anchor == "$":
        r = "anchored"
    seq = expand_seq(ast).upper().replace("U", "T").replace("I", "N")
    if not seq:
        return None
    if r == "anchored" and "min_overlap" in ast["params"]:
        return None   # "Setting min_overlap/o is not possible for anchored adapters"
    table = {("g", None): "FrontAdapter", ("g", "anchored"): "PrefixAdapter", ("g", "noninternal"): "NonInternalFrontAdapter",
             ("a", None): "BackAdapter", ("a", "anchored"): "SuffixAdapter", ("a", "noninternal"): "NonInternalBackAdapter",
             ("b", None): "AnywhereAdapter"}
    cls = table[(cmd, r)]
    if ast["rightmost"]:
        cls = "RightmostFrontAdapter"
    params = dict(file_params or {})
    params.update(ast["params"])
    me = Fraction(params["max_errors"]) if "max_errors" in params else Fraction(g["max_errors"])
    non_n = len(seq) - seq.count("N")
    rate = me / non_n if (me >= 1 and non_n > 0) else me
    ov = int(params["min_overlap"]) if "min_overlap" in params else g["min_overlap"]
    ov = len(seq) if r == "anchored" else min(ov, len(seq))
    indels = params.get("indels", g["indels"])
    aw = g["adapter_wildcards"] and not set(seq) <= set("ACGT")
    if g["adapter_wildcards"] and not set(seq) <= set("ABCDGHKMNRSTUVWXY"):
        return None
    if aw and non_n == 0:
        return None
    if r == "anchored" and not indels and not (0 <= rate <= 1):
        return None
    name = ast["name"] if file_name is None else file_name
    return {"class": cls, "sequence": seq, "rate": rate, "min_overlap": ov, "read_wildcards": g["read_wildcards"], "adapter_wildcards": aw,
            "indels": bool(indels), "force_anywhere": bool(params.get("anywhere")) and cls in ("FrontAdapter", "BackAdapter", "RightmostFrontAdapter"),
            "name": name}


def describe_obj(a):
    import cutadapt.adapters as A

    def one(x, named=True):
        return {"class": type(x).__name__, "sequence": x.sequence, "rate": x.max_error_rate, "min_overlap": x.min_overlap,
                "read_wildcards": bool(x.read_wildcards), "adapter_wildcards": bool(x.adapter_wildcards), "indels": bool(x.indels),
                "force_anywhere": bool(getattr(x, "_force_anywhere", False)) and type(x).__name__ in ("FrontAdapter", "BackAdapter", "RightmostFrontAdapter"),
                "name": x.name if named else None}

    if isinstance(a, A.LinkedAdapter):
        return {"linked": True, "name": a.name, "front": one(a.front_adapter, False), "back": one(a.back_adapter, False),
                "front_required": bool(a.front_required), "back_required": bool(a.back_required)}
    return one(a)


def same(desc, exp, auto_names):
    """compare an implementation/model description with an expected one (rates via float)"""
    if exp is None or desc is None:
        return exp is None and desc is None
    for k in ("class", "sequence", "min_overlap", "read_wildcards", "adapter_wildcards", "indels", "force_anywhere"):
        if desc[k] != exp[k]:
            return False
    if float(desc["rate"]) != float(exp["rate"]):
        return False
    if exp.get("name") is not None and desc.get("name") != exp["name"]:
        return False
    return True


CLASS_IDX = {U.CLASSNAME[t]: i for i, t in enumerate(U.TYPES)}


def parse_model(out):
    if out.startswith("Err") or out.startswith("ERROR"):
        return None
    res = []
    for item in out.split(";"):
        f = item.split(",")

        def desc(o):
            num, den = f[o + 2].split("/")
            nm = f[o + 8].strip()
            return {"class": U.CLASSNAME[U.TYPES[int(f[o])]], "sequence": "".join(chr(int(x)) for x in f[o + 1].split()),
                    "rate": Fraction(int(num), int(den)), "min_overlap": int(f[o + 3]), "read_wildcards": f[o + 4].strip() == "1",
                    "adapter_wildcards": f[o + 5].strip() == "1", "indels": f[o + 6].strip() == "1", "force_anywhere": f[o + 7].strip() == "1",
                    "name": None if nm == "-" else "".join(chr(int(x)) for x in nm[1:].split())}

        if f[0] == "S":
            res.append(desc(1))
        else:
            nm = f[1].strip()
            res.append({"linked": True, "name": None if nm == "-" else "".join(chr(int(x)) for x in nm[1:].split()),
                        "front_required": f[2].strip() == "1", "back_required": f[3].strip() == "1", "front": desc(4), "back": desc(13)})
    return res


def model_line(spec, cmd, g, records):
    me = g["max_errors"]
    if "." in me:
        a, b = me.split(".")
        mes = "%d %d" % (int(a + b), len(b))
    else:
        mes = str(int(me))
    recs = ";".join("%s,%s" % ("-" if n is None else U.enc(n), U.enc(s)) for n, s in records)
    return "parse %s|%d|%s|%d|%d %d %d|%s" % (U.enc(spec), {"g": 0, "a": 1, "b": 2}[cmd], mes, g["min_overlap"], int(g["read_wildcards"]),
                                              int(g["adapter_wildcards"]), int(g["indels"]), recs)


def impl_parse(spec, cmd, g, scratch, records):
    from cutadapt.parser import make_adapters_from_specifications
    from cutadapt.adapters import InvalidCharacter
    import cutadapt.adapters as A

    A._generate_adapter_name.__defaults__[0][0] = 1
    if records is not None:
        path = os.path.join(scratch, "adapters.fasta")
        with open(path, "w") as f:
            for n, s in records:
                f.write(">%s\n%s\n" % (n or "", s))
        spec = spec.replace("PATH", path)
    params = dict(max_errors=float(g["max_errors"]), min_overlap=g["min_overlap"], read_wildcards=g["read_wildcards"],
                  adapter_wildcards=g["adapter_wildcards"], indels=g["indels"])
    try:
        objs = make_adapters_from_specifications([({"a": "back", "g": "front", "b": "anywhere"}[cmd], spec)], params)
    except (KeyError, ValueError, InvalidCharacter) as e:
        return None, spec
    return [describe_obj(o) for o in objs], spec


INVALID = [
    ("a", "^ACGT"), ("g", "ACGT$"), ("g", "ACGTX"), ("a", "XACGT"), ("b", "^ACGT"), ("b", "ACGTX"), ("g", "^XACGT"), ("a", "ACGTX$"),
    ("a", "ACGT;o=3;min_overlap=4"), ("a", "ACGT;e=0.1;max_errors=2"), ("a", "ACGT;indels;noindels"), ("a", "ACGT;foo=1"),
    ("a", "ACGT;o="), ("a", "ACGT;e=abc"), ("a", "ACGT$;o=2"), ("g", "^ACGT;min_overlap=3"), ("a", "ACGT;rightmost"), ("g", "^ACGT;rightmost"),
    ("a", "ACGT;required"), ("a", "ACGT;optional"), ("b", "ACGT...TTTT"), ("g", "...ACGT"), ("a", "A{}C"), ("a", "{3}A"), ("a", "A{3"),
    ("a", "A}C"), ("a", "ACGT;required;optional...TTT"), ("a", ""), ("a", "ACG!"), ("b", "ACGT..."),
    ("a", "^ACGTACGT;o=3...TTTTGGGG"), ("a", "ACGT...TTTT$;min_overlap=4"), ("g", "^ACGT;o=2...TTTT"), ("g", "ACGT...TTTT$;o=3"),
    ("b", "ACGTACGT;rightmost"), ("b", "name=ACGTACGT;e=0.2;rightmost"),
]


def check(ctx):
    ctx.coq()
    ctx.model()
    buildimpl.activate()
    rng = ctx.rng
    model_ok = not any("extraction" in b for b in ctx.broken)
    scratch = os.path.join(buildimpl.scratch_root(), "c18")
    os.makedirs(scratch, exist_ok=True)
    cases = []
    dist = {}
    for _ in range(ctx.size(2500, 40000)):
        g = {"max_errors": rng.choice(["0.1", "0.1", "0.2", "0", "2"]), "min_overlap": rng.choice([3, 3, 1, 5]),
             "read_wildcards": rng.random() < 0.2, "adapter_wildcards": rng.random() < 0.8, "indels": rng.random() < 0.8}
        kind = rng.random()
        if kind < 0.6:
            ast = rand_ast(rng)
            spec = show(rng, ast)
            exp = meaning(ast, g)
            cases.append(("single", ast["cmd"], spec, g, None, None if exp is None else [exp]))
        elif kind < 0.8:
            fa, ba = rand_ast(rng, part="front"), rand_ast(rng, part="back")
            cmd = rng.choice(["a", "g"])
            name = fa["name"]
            spec = show(rng, fa) + "..." + show(rng, dict(ba, name=None))
            fm, bm = meaning(dict(fa, params={k: v for k, v in fa["params"].items() if k != "required"}), g), \
                meaning(dict(ba, params={k: v for k, v in ba["params"].items() if k != "required"}), g)
            if fm is None or bm is None:
                exp = None
            else:
                fr = True if cmd == "g" else fa["restriction"] is not None
                br = True if cmd == "g" else ba["restriction"] is not None
                fr = fa["params"].get("required", fr)
                br = ba["params"].get("required", br)
                fm["name"] = bm["name"] = None
                exp = [{"linked": True, "name": name, "front": fm, "back": bm, "front_required": fr, "back_required": br}]
            cases.append(("linked", cmd, spec, g, None, exp))
        elif kind < 0.9:
            # -a ADAPTER... / -a ...ADAPTER / -g ADAPTER...
            ast = rand_ast(rng)
            ast["rightmost"] = False
            if ast["cmd"] == "b":
                ast["cmd"] = "a"
                ast["restriction"] = None
            form = rng.choice(["after", "before"])
            if form == "after":
                ast2 = dict(ast, cmd="g", restriction=(ast["restriction"] if ast["cmd"] == "g" else None))
                spec = show(rng, ast2) + "..."
                exp = meaning(ast2, g)
                cases.append(("ellipsis", ast["cmd"], spec, g, None, None if exp is None else [exp]))
            else:
                ast2 = dict(ast, cmd="a", restriction=(ast["restriction"] if ast["cmd"] == "a" else None))
                spec = "..." + show(rng, ast2)
                exp = meaning(ast2, g) if ast["cmd"] == "a" else None
                cases.append(("ellipsis", ast["cmd"], spec, g, None, None if exp is None else [exp]))
        else:
            # file:, ^file:, file$:
            cmd = rng.choice(["a", "g", "b"])
            variant = rng.choice(["file:", "^file:", "file$:"])
            recs = [(rng.choice(["r1", "barcode2 some comment", "x"]), "".join(rng.choice("ACGT") for _ in range(rng.choice([4, 6, 9])))) for _ in range(rng.randint(1, 3))]
            fparams = {}
            pstr = ""
            if rng.random() < 0.5:
                fparams["max_errors"] = rng.choice(["0.2", "1", "0"])
                pstr += ";e=" + fparams["max_errors"]
            if rng.random() < 0.3:
                fparams["indels"] = False
                pstr += ";noindels"
            spec = variant + "PATH" + pstr
            anchor = "^" if variant.startswith("^") else ("$" if "$" in variant else None)
            exp = []
            for n, s in recs:
                a = {"cmd": cmd, "seq": s, "restriction": None, "params": {}, "name": None, "braces": None, "rightmost": False}
                ok = not (anchor == "^" and cmd != "g") and not (anchor == "$" and cmd != "a")
                mm = meaning(a, g, file_name=n.split()[0], file_params=fparams, file_anchor=anchor) if ok else None
                exp.append(mm)
            exp = None if any(e is None for e in exp) else exp
            cases.append(("file", cmd, spec, g, recs, exp))
    for cmd, spec in INVALID:
        g = {"max_errors": "0.1", "min_overlap": 3, "read_wildcards": False, "adapter_wildcards": True, "indels": True}
        cases.append(("invalid", cmd, spec, g, None, None))
    lines, impl_out, real_specs = [], [], []
    for kind, cmd, spec, g, recs, exp in cases:
        desc, real = impl_parse(spec, cmd, g, scratch, recs)
        impl_out.append(desc)
        real_specs.append(real)
        lines.append(model_line(real, cmd, g, [(n.split()[0] if n else None, s) for n, s in (recs or [])]) if recs is None else
                     model_line(real.replace(os.path.join(scratch, "adapters.fasta"), "f"), cmd, g, [(n.split()[0], s) for n, s in recs]))
    outs = core.model_run(lines) if model_ok else [None] * len(lines)
    ndis = 0
    for (kind, cmd, spec, g, recs, exp), desc, mo in zip(cases, impl_out, outs):
        ctx.count((kind, cmd, spec, tuple(sorted(g.items()))), desc is not None)
        dist[kind + ("/ok" if desc is not None else "/rejected")] = dist.get(kind + ("/ok" if desc is not None else "/rejected"), 0) + 1
        # oracle: documentation vs implementation
        okd = (desc is None and exp is None) or (desc is not None and exp is not None and len(desc) == len(exp) and all(same_any(d, e) for d, e in zip(desc, exp)))
        if not okd:
            sig = "%s: specification %s" % (kind, "accepted but documented as invalid" if exp is None else ("rejected but documented as valid" if desc is None else "means something else than documented"))
            ctx.violation(sig, {"cmd": "-" + cmd, "spec": spec, "globals": g, "records": recs, "implementation": jsonable(desc), "documented": jsonable(exp),
                                "reproduce": "cd /verif && ./check replay <this file>"})
        if mo is not None:
            md = parse_model(mo)
            okm = (desc is None and md is None) or (desc is not None and md is not None and len(desc) == len(md) and all(same_any(d, e, model=True) for d, e in zip(desc, md)))
            if not okm:
                ndis += 1
                if ndis <= 10:
                    ctx.violation("correspondence:parser", {"cmd": "-" + cmd, "spec": spec, "globals": g, "records": recs, "impl": jsonable(desc), "model": jsonable(md)}, found_input=False)
    ctx.notes.setdefault("correspondence", {})["make_adapters_from_specifications"] = {"cases": len(cases), "disagreements": ndis}
    # several specifications in one call share the dictionary of global parameters: what one specification (in particular a
    # file: specification with file-level parameters) sets must not reach the others, nor the caller's dictionary
    from cutadapt.parser import make_adapters_from_specifications
    import cutadapt.adapters as A_

    nseq = 0
    for _ in range(ctx.size(60, 800)):
        g = {"max_errors": rng.choice(["0.1", "0.2", "0"]), "min_overlap": rng.choice([3, 1, 5]), "read_wildcards": False, "adapter_wildcards": True, "indels": rng.random() < 0.8}
        specs = []
        for _k in range(rng.choice([2, 3])):
            cmd = rng.choice(["a", "g", "b"])
            if rng.random() < 0.5:
                recs = [("r%d" % i, "".join(rng.choice("ACGT") for _ in range(rng.choice([4, 6, 9])))) for i in range(rng.randint(1, 2))]
                pstr = rng.choice([";e=0.3", ";e=0.3;o=7", ";noindels", ";o=2", ""])
                prev = [sp_.split(";")[0][5:] for _, sp_ in specs if sp_.startswith("file:")]
                if prev and rng.random() < 0.4:
                    path = rng.choice(prev)     # the same FASTA file named by two options: every reference reads all of its records
                else:
                    path = os.path.join(scratch, "seq%d.fasta" % len(specs))
                    with open(path, "w") as f:
                        for n_, s_ in recs:
                            f.write(">%s\n%s\n" % (n_, s_))
                specs.append((cmd, "file:" + path + pstr))
            else:
                a_ = rand_ast(rng, linked_ok=False)
                a_["name"] = "n%d" % len(specs)
                specs.append((a_["cmd"], show(rng, a_)))
        tmap = {"a": "back", "g": "front", "b": "anywhere"}
        params = dict(max_errors=float(g["max_errors"]), min_overlap=g["min_overlap"], read_wildcards=False, adapter_wildcards=True, indels=g["indels"])
        before = dict(params)
        try:
            A_._generate_adapter_name.__defaults__[0][0] = 1
            together = [describe_obj(o) for o in make_adapters_from_specifications([(tmap[c], sp) for c, sp in specs], params)]
        except Exception:
            continue
        alone = []
        for c, sp in specs:
            A_._generate_adapter_name.__defaults__[0][0] = 1
            alone += [describe_obj(o) for o in make_adapters_from_specifications([(tmap[c], sp)], dict(before))]
        nseq += 1
        ctx.count(("sequence", tuple(specs), tuple(sorted(g.items()))), True)
        strip = lambda L: [{k: v for k, v in d_.items() if k != "name"} for d_ in L]
        if params != before:
            ctx.violation("sequence of specifications: the caller's global parameters were changed", {"specs": [list(x) for x in specs], "globals": g, "before": before, "after": jsonable(params)})
        elif strip(together) != strip(alone):
            ctx.violation("sequence of specifications: a specification means something else next to others than alone",
                          {"specs": [[c, sp.replace(scratch, "$D")] for c, sp in specs], "globals": g, "together": jsonable(together), "alone": jsonable(alone)})
    dist["sequences of specifications"] = nseq
    # file:, ^file:, file$: with records that are linked adapters: every record is read, and anchored as if ^ / $ had been
    # written next to it (-a ^file: means -a ^A...B, -g file$: means -g A...B$)
    nfl = 0
    for _ in range(ctx.size(30, 400)):
        g = {"max_errors": rng.choice(["0.1", "0.2", "0"]), "min_overlap": 3, "read_wildcards": False, "adapter_wildcards": True, "indels": rng.random() < 0.8}
        recs = [("lk%d" % i, "%s...%s" % ("".join(rng.choice("ACGT") for _ in range(rng.choice([5, 8]))), "".join(rng.choice("ACGT") for _ in range(rng.choice([5, 8])))))
                for i in range(rng.randint(1, 3))]
        cmd, variant = rng.choice([("a", "^file:"), ("g", "file$:"), ("a", "file:"), ("g", "file:"), ("g", "^file:"), ("a", "file$:")])
        pstr = rng.choice(["", "", ";e=0.2", ";noindels"])
        desc_file, real = impl_parse(variant + "PATH" + pstr, cmd, g, scratch, recs)
        spelled = []
        for n, sq in recs:
            fr_, bk_ = sq.split("...")
            # file-level parameters hold for the whole record, i.e. for both parts of a linked adapter
            body = ("^" if variant.startswith("^") else "") + fr_ + pstr + "..." + bk_ + ("$" if "$" in variant else "") + pstr
            spelled.append(impl_parse("%s=%s" % (n, body), cmd, g, scratch, None)[0])
        want = None if any(x is None for x in spelled) else [x[0] for x in spelled]
        nfl += 1
        ctx.count(("filelinked", cmd, variant, pstr, tuple(recs)), desc_file is not None)
        if (desc_file is None) != (want is None) or (desc_file is not None and not (len(desc_file) == len(want) and all(same_any(d, e) for d, e in zip(desc_file, want)))):
            ctx.violation("file: with linked-adapter records does not mean the records written out",
                          {"cmd": "-" + cmd, "spec": variant + "PATH" + pstr, "globals": g, "records": recs, "implementation": jsonable(desc_file), "documented": jsonable(want)})
    dist["file: with linked-adapter records"] = nfl
    # CLI: invalid specifications exit with status 2
    import cutadapt.cli as cli
    import io
    import sys

    inp = os.path.join(scratch, "in.fastq")
    with open(inp, "w") as f:
        f.write("@r\nACGT\n+\nIIII\n")
    for cmd, spec in INVALID:
        old = sys.stdout, sys.stderr
        sys.stdout, sys.stderr = io.StringIO(), io.StringIO()
        code = 0
        try:
            cli.main(["-" + cmd, spec, "-o", os.path.join(scratch, "o.fastq"), inp])
        except SystemExit as e:
            code = e.code
        except Exception as e:  # noqa
            code = "exception %s" % type(e).__name__
        finally:
            sys.stdout, sys.stderr = old
        ctx.count(("cli", cmd, spec), True)
        if code != 2:
            ctx.violation("invalid specification does not exit with status 2", {"cmd": "-" + cmd, "spec": spec, "exit": str(code)})
        # the same specification for the second read (-A/-G/-B) of a paired-end run is refused in the same way
        sys.stdout, sys.stderr = io.StringIO(), io.StringIO()
        code = 0
        try:
            cli.main(["-" + cmd.upper(), spec, "-o", os.path.join(scratch, "o.1.fastq"), "-p", os.path.join(scratch, "o.2.fastq"), inp, inp])
        except SystemExit as e:
            code = e.code
        except Exception as e:  # noqa
            code = "exception %s" % type(e).__name__
        finally:
            sys.stdout, sys.stderr = old
        ctx.count(("cli", cmd.upper(), spec), True)
        if code != 2:
            ctx.violation("invalid specification for the second read does not exit with status 2", {"cmd": "-" + cmd.upper(), "spec": spec, "exit": str(code)})
    # several specifications in one command line: each adapter is what the specification gives when it stands alone -- the
    # parameters written behind one specification (a file: one included) do not reach the next
    import random as _random
    from cutadapt.parser import make_adapters_from_specifications
    r2 = _random.Random(ctx.seed * 104729 + 18)   # own stream
    TYPE = {"a": "back", "g": "front", "b": "anywhere"}
    g0 = {"max_errors": 0.1, "min_overlap": 3, "read_wildcards": False, "adapter_wildcards": True, "indels": True}
    params0 = dict(max_errors=0.1, min_overlap=3, read_wildcards=False, adapter_wildcards=True, indels=True)
    nsev = 0
    for _ in range(ctx.size(40, 400)):
        recs = [("x%d" % i, U.rand_seq(r2, r2.randint(6, 12), "ACGT")) for i in range(r2.choice([1, 2]))]
        cmd1, first = r2.choice([("a", "file:PATH;min_overlap=5;max_error_rate=0"), ("a", "file:PATH;e=0.2;noindels"), ("g", "^file:PATH;e=0"),
                                 ("a", "ACGTACGTAA;e=0.3;o=7"), ("a", "name=TTTTCCCCGG;noindels;e=0"), ("g", "file:PATH;o=9")])
        cmd2, second = r2.choice([("a", "GGCCAATTGGCC"), ("g", "^CCAATTGG"), ("a", "AACCGGTTAACC;o=4"), ("a", "TTGGCCAA$"), ("b", "ACGTTGCAAC"),
                                  ("g", "GATTACAGATTACA...TTGGCCAA")])
        alone, _sp = impl_parse(second, cmd2, g0, scratch, None)
        path = os.path.join(scratch, "adapters.fasta")
        with open(path, "w") as f:
            for n, q in recs:
                f.write(">%s\n%s\n" % (n, q))
        try:
            both = make_adapters_from_specifications([(TYPE[cmd1], first.replace("PATH", path)), (TYPE[cmd2], second)], dict(params0))
            tail = [describe_obj(o) for o in both[len(both) - len(alone or []):]] if alone else None
        except Exception as e:  # noqa
            tail = "raises %s" % type(e).__name__
        nsev += 1
        ctx.count(("several", cmd1, first, cmd2, second, tuple(recs)), alone is not None)

        def strip_names(ds):
            if not isinstance(ds, list):
                return ds
            out = []
            for d_ in ds:
                d_ = dict(d_)
                d_.pop("name", None)
                for k_ in ("front", "back"):
                    if isinstance(d_.get(k_), dict):
                        d_[k_] = {kk: vv for kk, vv in d_[k_].items() if kk != "name"}
                out.append(d_)
            return out

        if alone is not None and strip_names(tail) != strip_names(alone):
            ctx.violation("an adapter given after another specification differs from the same adapter given alone",
                          {"first": ["-" + cmd1, first], "second": ["-" + cmd2, second], "records": recs, "alone": jsonable(alone), "together": jsonable(tail),
                           "why": "-%s %r after -%s %r is built as %r, alone as %r" % (cmd2, second, cmd1, first, tail, alone)})
            break
    dist["several specifications in one call"] = nsev
    # the option letters: -a/-g/-b and, for the second read, -A/-G/-B select 3' / 5' / anywhere
    try:
        parser = cli.get_argument_parser()
        for opt, exp in (("-a", "back"), ("-g", "front"), ("-b", "anywhere"), ("-A", "back"), ("-G", "front"), ("-B", "anywhere"),
                         ("--adapter", "back"), ("--front", "front"), ("--anywhere", "anywhere")):
            ns = parser.parse_args([opt, "ACGT", "in.fastq"] + (["in2.fastq"] if opt.isupper() else []))
            tags = [t_ for t_, _ in list(getattr(ns, "adapters", [])) + list(getattr(ns, "adapters2", []))]
            ctx.count(("option", opt), True)
            if tags != [exp]:
                ctx.violation("option letter selects another adapter type than documented", {"option": opt, "observed": tags, "documented": [exp]})
    except SystemExit as e:
        ctx.violation("option letter rejected", {"exit": str(e.code)})
    ctx.coverage["rule"] = (
        "specification strings printed from random ASTs of the documented grammar (type x restriction x name x brace expansion x parameter subset with every "
        "abbreviation x spacing), linked adapters with required/optional, -a X... / ...X forms, file:/^file:/file$: with 1-3 records and file-level parameters, "
        "plus %d documented-invalid strings; non-trivial = accepted by the implementation" % len(INVALID))
    ctx.coverage["input_distribution"] = dist
    for i in range(0, len(cases), max(1, len(cases) // 5)):
        ctx.sample({"cmd": "-" + cases[i][1], "spec": cases[i][2], "implementation": jsonable(impl_out[i])})
    ctx.coverage["search_note"] = "oracle_C18 (documentation table applied to the generating AST) was compared with the implementation on all %d cases" % len(cases)


def same_any(d, e, model=False):
    if d.get("linked") or e.get("linked"):
        if not (d.get("linked") and e.get("linked")):
            return False
        if d["front_required"] != e["front_required"] or d["back_required"] != e["back_required"]:
            return False
        if e.get("name") is not None and d.get("name") != e["name"]:
            return False
        return same(d["front"], e["front"], True) and same(d["back"], e["back"], True)
    return same(d, e, True)


def jsonable(x):
    import json

    return json.loads(json.dumps(x, default=str))


def replay(doc):
    r = doc["replay"]
    scratch = os.path.join(buildimpl.scratch_root(), "c18")
    os.makedirs(scratch, exist_ok=True)
    if "globals" not in r:
        print(r)
        return 0
    desc, _ = impl_parse(r["spec"], r["cmd"][1:], r["globals"], scratch, [tuple(x) for x in r["records"]] if r.get("records") else None)
    print(r["cmd"], r["spec"], "->", desc, "| documented:", r.get("documented"))
    exp = r.get("documented")
    return 0 if jsonable(desc) == exp or (desc is None and exp is None) else 1
