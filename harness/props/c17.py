"""C17 -- see harness/sysprops.py (system-level check: proof obligations of coq/Properties/C17.v,
pipeline-model correspondence with cutadapt.cli.main, oracle_C17 on the implementation's outputs)."""
from .. import sysprops


def check(ctx):
    sysprops.run(ctx, "C17")


def replay(doc):
    return sysprops.replay(doc, "C17")
