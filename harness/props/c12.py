"""C12 -- broken input makes the run fail visibly; it never hangs or loses reads silently.
Proof: coq/Properties/C12.v (runner protocol with faults: what has been written is always the in-order prefix of
correctly processed chunks; every schedule is finite; a run that finishes without failure has met no fault; a state
that is not terminal always has an enabled step).
Correspondence: the protocol traces of real faulty multi-core runs (trace hook) are replayed in the extracted model
with the recorded fault pattern and must be accepted event by event.
Fault enumeration (search for a failing input; implementation only): truncation of plain and gzip inputs at byte
positions (every position in the thorough tier), single-record corruptions at the first / a middle / the last record,
paired inputs with missing or renamed mates; one core and several; with a time bound.  Oracle: a strict FASTQ parser
of our own decides well-formedness; malformed => non-zero exit, message on stderr, no hang, every output file a
record-boundary prefix of the output for the intact input; well-formed => exit 0 and exactly the records of the
intact run that belong to the reads present."""
import gzip
import json
import os
import shutil
import subprocess
from concurrent.futures import ThreadPoolExecutor

from .. import core, buildimpl
from .. import runnerutil as R

ADAPTER = "AGATCGGAAG"
TIMEOUT = 60


# ---------------------------------------------------------------- inputs
def make_records(rng, n, tag=""):
    recs = []
    for i in range(n):
        L = rng.randint(18, 64)
        s = "".join(rng.choice("ACGT") for _ in range(L))
        if rng.random() < 0.4:
            k = rng.randint(3, L)
            s = s[:k] + ADAPTER + s[k:][: rng.randint(0, 8)]
        q = "".join(chr(33 + rng.randint(2, 40)) for _ in range(len(s)))
        recs.append(("r%dx%s" % (i, tag), s, q))  # not ending in 1/2/3: those are mate markers for the name check
    return recs


def fastq(recs):
    return "".join("@%s\n%s\n+\n%s\n" % r for r in recs).encode()


def fasta(recs):
    return "".join(">%s\n%s\n" % (r[0], r[1]) for r in recs).encode()


def strict_parse_fasta(data):
    """single-line FASTA records: > header line, one sequence line"""
    if data == b"":
        return []
    try:
        text = data.decode("ascii")
    except UnicodeDecodeError:
        return None
    if text.endswith("\n"):
        text = text[:-1]
    lines = text.split("\n")
    if len(lines) % 2:
        return None
    recs = []
    for i in range(0, len(lines), 2):
        if not lines[i].startswith(">") or len(lines[i]) < 2 or any(c not in "ACGTNacgtn" for c in lines[i + 1]):
            return None
        recs.append((lines[i][1:], lines[i + 1], None))
    return recs


def strict_parse(data):
    """-> list of (name, seq, qual) or None when the bytes are not a well-formed FASTQ file
    (four lines per record, @ and + markers, equal lengths, only the final newline optional)"""
    if data == b"":
        return []
    try:
        text = data.decode("ascii")
    except UnicodeDecodeError:
        return None
    if text.endswith("\n"):
        text = text[:-1]
    lines = text.split("\n")
    if len(lines) % 4:
        return None
    recs = []
    for i in range(0, len(lines), 4):
        h, s, p, q = lines[i:i + 4]
        if not h.startswith("@") or not p.startswith("+") or len(s) != len(q) or "\r" in h + s + p + q:
            return None
        if p != "+" and p[1:] != h[1:]:
            return None
        if any(c not in "ACGTNacgtn" for c in s) or any(not (33 <= ord(c) <= 126) for c in q):
            return None
        recs.append((h[1:], s, q))
    return recs


def well_formed_file(name, data):
    if name.endswith(".gz"):
        try:
            data = gzip.decompress(data)
        except Exception:  # noqa
            return None
    return strict_parse(data)


def rid(name):
    return name.split()[0].split("/")[0]


# ---------------------------------------------------------------- faults
def faults_single(rng, data, recs, quick, gz):
    """-> list of (label, bytes)"""
    out = []
    n = len(data)
    if gz:
        pos = sorted(set([0, 1, 5, 9, 10, 18, n // 3, n // 2, n - 9, n - 8, n - 4, n - 1] + [rng.randrange(n) for _ in range(4 if quick else 60)]))
        out += [("truncate@%d" % p, data[:p]) for p in pos if 0 <= p < n]
        for _ in range(2 if quick else 12):
            p = rng.randrange(10, n - 8)
            out.append(("flip@%d" % p, data[:p] + bytes([data[p] ^ 0x55]) + data[p + 1:]))
        return out
    if quick:
        first = len(fastq(recs[:1]))
        pos = sorted(set([0, 1, 3, 4, 5, first - 1, first, first + 1, n - 1, n - 2, n - 30] + [rng.randrange(n) for _ in range(8)]))
    else:
        pos = list(range(n))
    out += [("truncate@%d" % p, data[:p]) for p in pos if 0 <= p < n]
    offs = [0]
    for r in recs:
        offs.append(offs[-1] + len(fastq([r])))
    for k in sorted(set([0, len(recs) // 2, len(recs) - 1] + ([] if quick else [1, len(recs) // 3, len(recs) - 2]))):
        a, b = offs[k], offs[k + 1]
        rec = data[a:b]
        l = rec.split(b"\n")
        variants = {
            "qual-short": b"\n".join([l[0], l[1], l[2], l[3][:-1], b""]),
            "qual-long": b"\n".join([l[0], l[1], l[2], l[3] + b"I", b""]),
            "no-plus": b"\n".join([l[0], l[1], b"-", l[3], b""]),
            "no-at": b"\n".join([b"X" + l[0][1:], l[1], l[2], l[3], b""]),
            "seq-line-missing": b"\n".join([l[0], l[2], l[3], b""]),
            "newline-missing": l[0] + l[1] + b"\n" + l[2] + b"\n" + l[3] + b"\n",
            "binary-garbage": b"\x00\xff\x00\xff" * 5 + b"\n",
        }
        for name, v in variants.items():
            out.append(("record%d:%s" % (k, name), data[:a] + v + data[b:]))
    return out


def faults_paired(rng, recs1, recs2, quick):
    """-> list of (label, bytes1, bytes2)"""
    out = []
    d1, d2 = fastq(recs1), fastq(recs2)
    n = len(recs1)
    out.append(("r2-last-missing", d1, fastq(recs2[:-1])))
    out.append(("r1-last-missing", fastq(recs1[:-1]), d2))
    out.append(("r2-half-missing", d1, fastq(recs2[: n // 2])))
    k = n // 2
    out.append(("r2-middle-missing", d1, fastq(recs2[:k] + recs2[k + 1:])))
    ren = list(recs2)
    ren[k] = ("other" + ren[k][0], ren[k][1], ren[k][2])
    out.append(("r2-renamed@%d" % k, d1, fastq(ren)))
    ren = list(recs2)
    ren[0] = ("zz" + ren[0][0], ren[0][1], ren[0][2])
    out.append(("r2-renamed@0", d1, fastq(ren)))
    pos = [rng.randrange(len(d2)) for _ in range(4 if quick else 80)] + [len(d2) - 1, 1]
    for p in sorted(set(pos)):
        out.append(("r2-truncate@%d" % p, d1, d2[:p]))
    for p in sorted(set(rng.randrange(len(d1)) for _ in range(3 if quick else 60))):
        out.append(("r1-truncate@%d" % p, d1[:p], d2))
    return out


# ---------------------------------------------------------------- running
def argv_single(d, inp):
    return ["-a", ADAPTER, "-m", "25", "-o", os.path.join(d, "out.fastq"), "--too-short-output", os.path.join(d, "short.fastq"),
            "--info-file", os.path.join(d, "info.tsv"), os.path.join(d, inp)]


def argv_stdout(d, inp):
    """reads go to standard output, the report is switched off: whatever appears on stderr is the error message"""
    return ["--quiet", "-a", ADAPTER, "-m", "25", os.path.join(d, inp)]


def argv_paired(d, interleaved, ext="fastq"):
    a = ["-a", ADAPTER, "-A", ADAPTER, "-m", "25", "-o", os.path.join(d, "out.1." + ext), "-p", os.path.join(d, "out.2." + ext)]
    if interleaved:
        return a + ["--interleaved", os.path.join(d, "in.inter." + ext)]
    return a + [os.path.join(d, "in.1." + ext), os.path.join(d, "in.2." + ext)]


def run_one(job):
    """job: dict(dir, files={name: bytes}, argv_fn, cores, buf) -> result dict"""
    d = job["dir"]
    shutil.rmtree(d, ignore_errors=True)
    os.makedirs(d)
    for name, data in job["files"].items():
        with open(os.path.join(d, name), "wb") as f:
            f.write(data)
    res = R.run_cli(job["argv"](d), d, job["cores"], buffer_size=job["buf"], sched=job.get("sched"), timeout=TIMEOUT)
    res["out"] = R.collect_outputs(d)
    if job.get("stdout"):
        res["out"] = {"out.fastq": res.get("stdout", "").encode("ascii", errors="replace")}
    shutil.rmtree(d, ignore_errors=True)
    return res


def boundary_prefix(out, ref, per=4):
    """out is a prefix of ref that ends at a record boundary"""
    if not ref.startswith(out):
        return False
    return out == b"" or (out.endswith(b"\n") and out.count(b"\n") % per == 0)


def judge(label, job, res, refs, wf_records, kind):
    """-> list of problems.  wf_records: None when malformed, else the list of read ids present"""
    probs = []
    if res["timed_out"]:
        return ["no termination within %d s" % TIMEOUT]
    outs = {k: v for k, v in res["out"].items() if k.endswith(".fastq") or k.endswith(".fasta")}
    if wf_records is None:
        if res["exit"] == 0:
            probs.append("exit status 0 on malformed input")
        elif not res["stderr"].strip():
            probs.append("no error message on stderr (exit %r)" % res["exit"])
        for f, content in outs.items():
            if "flip@" in label:
                # a flipped byte inside a deflate stream can decode to *other* well-formed-looking text before the checksum fails:
                # what was written then stems from that text, not from the intact input; only exit status, message and
                # termination are demanded (the property names truncated streams, not altered ones)
                continue
            if not boundary_prefix(content, refs.get(f, b""), 2 if f.endswith(".fasta") else 4):
                probs.append("output %s is not a record-boundary prefix of the output for the intact input" % f)
        if kind == "paired" and len(outs) == 2:
            a, b = outs.get("out.1.fastq", b""), outs.get("out.2.fastq", b"")
            if a.count(b"\n") != b.count(b"\n"):
                pass  # the two files are flushed separately on error; each is judged as a prefix above
    else:
        if res["exit"] != 0 and "truncate@" in label:
            # the cut happened to leave a file that still parses (typically only the final newline is gone).  The property demands
            # status 0 ONLY for well-formed input, not FOR every such input: refusing a cut file is allowed (the chunked paired
            # reader of dnaio does so for small buffers), but then the refusal obeys the rules for failures
            if not res["stderr"].strip():
                probs.append("no error message on stderr (exit %r)" % res["exit"])
            for f, content in outs.items():
                if not boundary_prefix(content, refs.get(f, b""), 2 if f.endswith(".fasta") else 4):
                    probs.append("output %s is not a record-boundary prefix of the output for the intact input" % f)
        elif res["exit"] != 0:
            probs.append("exit status %r on well-formed input (%s)" % (res["exit"], res["stderr"].strip()[-200:]))
        else:
            present = set(wf_records)
            for f, ref in refs.items():
                if not (f.endswith(".fastq") or f.endswith(".fasta")):
                    continue
                per = 2 if f.endswith(".fasta") else 4
                lines = ref.split(b"\n")
                exp = b""
                for i in range(0, len(lines) - 1, per):
                    if rid(lines[i][1:].decode()) in present:
                        exp += b"\n".join(lines[i:i + per]) + b"\n"
                if outs.get(f, b"") != exp:
                    probs.append("output %s lacks or adds records for a well-formed input of %d reads" % (f, len(present)))
    return probs


def trace_check(res, cores):
    if cores == 1 or not res["trace"]:
        return []
    tv = R.validate_trace(res["trace"], cores)
    if "error" in tv:
        return ["model driver: " + tv["error"]]
    if tv["accepted"] != tv["total"]:
        return ["event %d of %d (%r) is not enabled in the runner model" % (tv["accepted"], tv["total"], tv["first_rejected"])]
    if res["exit"] == 0 and not (tv["terminal"] and tv["ok"]):
        return ["exit 0 but the replayed model state is not a finished state"]
    if res["exit"] not in (0, None) and tv["ok"]:
        return ["non-zero exit but the replayed model run finished without failure"]
    if tv["written"] != list(range(len(tv["written"]))):
        return ["model wrote blocks out of order: %r" % tv["written"][:20]]
    return []


def check(ctx):
    ctx.coq()
    ctx.model()
    buildimpl.activate()
    rng = ctx.rng
    root = os.path.join(buildimpl.scratch_root(), "c12")
    dist = {}
    jobs = []

    def add(kind, label, files, argv, cores, buf, refkey, wf):
        jobs.append({"kind": kind, "label": label, "files": files, "argv": argv, "cores": cores, "buf": buf, "refkey": refkey, "wf": wf,
                     "sched": rng.randrange(1, 10**6) if cores > 1 and rng.random() < 0.5 else None})

    refs = {}
    nrec = 14 if ctx.quick else 22
    multi = [2, 3] if ctx.quick else [2, 3, 4]
    # ---- single-end, plain and gzip
    for gz in (False, True):
        recs = make_records(rng, nrec)
        plain = fastq(recs)
        data = gzip.compress(plain, mtime=0) if gz else plain
        name = "in.fastq.gz" if gz else "in.fastq"
        refkey = "single-gz" if gz else "single"
        refs[refkey] = {"files": {name: data}, "argv": (lambda nm: (lambda d: argv_single(d, nm)))(name)}
        for label, bad in faults_single(rng, data, recs, ctx.quick, gz):
            parsed = well_formed_file(name, bad)
            wf = None if parsed is None else [rid(r[0]) for r in parsed]
            if parsed is not None and [r for r in parsed] != recs[: len(parsed)]:
                dist["well-formed-but-different (skipped)"] = dist.get("well-formed-but-different (skipped)", 0) + 1
                continue
            for cores in [1, rng.choice(multi)] if ctx.quick else [1] + multi[:2]:
                add("single", ("gz:" if gz else "") + label, {name: bad}, refs[refkey]["argv"], cores, rng.choice([600, 600, 1000, None]), refkey, wf)
    # ---- reads written to standard output (no -o), --quiet: the failure must still be announced on stderr
    recs_so = make_records(rng, nrec, "s")
    plain_so = fastq(recs_so)
    refs["single-stdout"] = {"files": {"in.fastq": plain_so}, "argv": lambda d: argv_stdout(d, "in.fastq"), "stdout": True}
    so_faults = [f for f in faults_single(rng, plain_so, recs_so, True, False) if well_formed_file("in.fastq", f[1]) is None]
    rng.shuffle(so_faults)
    for label, bad in so_faults[: (4 if ctx.quick else 20)]:
        for cores in [1, rng.choice(multi)]:
            add("single", "stdout:" + label, {"in.fastq": bad}, refs["single-stdout"]["argv"], cores, rng.choice([600, None]), "single-stdout", None)
            jobs[-1]["stdout"] = True
    # ---- a larger gzip input: the decompressor fails only after format detection and the first chunks went through, so the error
    # arises in the reader process and has to travel through the workers to the main process (EOFError for a truncated stream)
    big = make_records(rng, 400 if ctx.quick else 2500, "b")
    bigdata = gzip.compress(fastq(big), mtime=0)
    refs["single-gz-big"] = {"files": {"in.fastq.gz": bigdata}, "argv": lambda d: argv_single(d, "in.fastq.gz")}
    nb = len(bigdata)
    bigfaults = [("truncate@%d" % p, bigdata[:p]) for p in sorted(set([nb // 3, (nb * 3) // 5, nb - 9, nb - 300] + [rng.randrange(nb // 10, nb) for _ in range(1 if ctx.quick else 8)]))]
    for _ in range(1 if ctx.quick else 6):
        p = rng.randrange(nb // 4, nb - 8)
        bigfaults.append(("flip@%d" % p, bigdata[:p] + bytes([bigdata[p] ^ 0x55]) + bigdata[p + 1:]))
    for label, bad in bigfaults:
        parsed = well_formed_file("in.fastq.gz", bad)
        if parsed is not None:
            dist["well-formed-but-different (skipped)"] = dist.get("well-formed-but-different (skipped)", 0) + 1
            continue
        for cores in [1, rng.choice(multi)] if ctx.quick else [1] + multi[:2]:
            add("single", "gz-big:" + label, {"in.fastq.gz": bad}, refs["single-gz-big"]["argv"], cores, rng.choice([600, 1000, None]), "single-gz-big", None)
    # ---- output through an external compressor (.xz) on several cores, input of several chunks whose results exceed a pipe buffer,
    # a malformed record in the first chunk: the error must end the run (workers that keep pipes to the compressor open must not
    # keep the main process waiting)
    xrecs = make_records(rng, 12000 if ctx.quick else 30000, "x")
    xplain = fastq(xrecs)
    refs["single-xz-out"] = {"files": {"in.fastq": xplain}, "argv": lambda d: ["-a", ADAPTER, "-m", "25", "-o", os.path.join(d, "out.fastq.xz"), os.path.join(d, "in.fastq")]}
    xl = xplain.split(b"\n")
    for k in ([3] if ctx.quick else [3, 40, 700]):
        bad_l = list(xl)
        bad_l[4 * k + 3] = bad_l[4 * k + 3][:-2]
        bad = b"\n".join(bad_l)
        if well_formed_file("in.fastq", bad) is None:
            for cores in ([2] if ctx.quick else [1, 2, 3]):
                add("single", "xz-out:record%d:quality-short" % k, {"in.fastq": bad}, refs["single-xz-out"]["argv"], cores, 300000, "single-xz-out", None)
    # ---- paired, two files and interleaved
    r1 = make_records(rng, nrec)
    r2 = [(a[0], b[1], b[2]) for a, b in zip(r1, make_records(rng, nrec))]
    refs["paired"] = {"files": {"in.1.fastq": fastq(r1), "in.2.fastq": fastq(r2)}, "argv": lambda d: argv_paired(d, False)}
    inter = [r for pr in zip(r1, r2) for r in pr]
    refs["interleaved"] = {"files": {"in.inter.fastq": fastq(inter)}, "argv": lambda d: argv_paired(d, True)}
    for label, b1, b2 in faults_paired(rng, r1, r2, ctx.quick):
        p1, p2 = strict_parse(b1), strict_parse(b2)
        wf = None
        if p1 is not None and p2 is not None and len(p1) == len(p2) and all(rid(a[0]) == rid(b[0]) for a, b in zip(p1, p2)):
            wf = [rid(a[0]) for a in p1]
        for cores in [1, rng.choice(multi)]:
            add("paired", label, {"in.1.fastq": b1, "in.2.fastq": b2}, refs["paired"]["argv"], cores, rng.choice([600, 1000, None]), "paired", wf)
    di = fastq(inter)
    ipos = sorted(set([rng.randrange(len(di)) for _ in range(4 if ctx.quick else 60)] + [len(fastq(inter[:1])), len(fastq(inter[:3])), len(fastq(inter[:2]))]))
    for p in ipos:
        parsed = strict_parse(di[:p])
        wf = None
        if parsed is not None and len(parsed) % 2 == 0:
            wf = [rid(r[0]) for r in parsed[::2]]
        for cores in [1, rng.choice(multi)]:
            add("paired", "interleaved-truncate@%d" % p, {"in.inter.fastq": di[:p]}, refs["interleaved"]["argv"], cores, rng.choice([600, 1000, None]), "interleaved", wf)

    # ---- FASTA: interleaved (one file) and two files; a FASTA file cut inside a record is still a FASTA file, so the
    # faults here are missing mates: every odd number of records, a cut inside the last header, R2 shorter than R1
    f1 = make_records(rng, nrec * 2)
    f2 = [(a[0], b[1], None) for a, b in zip(f1, make_records(rng, nrec * 2))]
    finter = [r for pr in zip(f1, f2) for r in pr]
    refs["interleaved-fasta"] = {"files": {"in.inter.fasta": fasta(finter)}, "argv": lambda d: argv_paired(d, True, "fasta")}
    refs["paired-fasta"] = {"files": {"in.1.fasta": fasta(f1), "in.2.fasta": fasta(f2)}, "argv": lambda d: argv_paired(d, False, "fasta")}
    cuts = sorted(set([len(finter) - 1, len(finter) - 3, 1, 3] + [rng.randrange(1, len(finter)) | 1 for _ in range(2 if ctx.quick else 10)]))
    for k in cuts:
        data = fasta(finter[:k])
        for cores in [1] + ([rng.choice(multi)] if ctx.quick else multi[:2]):
            for buf in ([rng.choice([300, 600])] if ctx.quick else [300, 600, 1000]):
                add("paired", "interleaved-fasta:%d-records" % k, {"in.inter.fasta": data}, refs["interleaved-fasta"]["argv"], cores, buf if cores > 1 else None, "interleaved-fasta", None)
    whole = fasta(finter)
    lastrec = len(fasta(finter[-1:]))
    for p in (len(whole) - lastrec + 2, len(whole) - lastrec + 1):
        # cut inside the last header: the last record has a header but no sequence line
        for cores in [1, rng.choice(multi)]:
            add("paired", "interleaved-fasta:cut-in-last-header@%d" % p, {"in.inter.fasta": whole[:p]}, refs["interleaved-fasta"]["argv"], cores, 600 if cores > 1 else None,
                "interleaved-fasta", None if strict_parse_fasta(whole[:p]) is None or len(strict_parse_fasta(whole[:p])) % 2 else [rid(r[0]) for r in strict_parse_fasta(whole[:p])[::2]])
    for k in (len(f2) - 1, len(f2) // 2):
        for cores in [1, rng.choice(multi)]:
            add("paired", "paired-fasta:r2-has-%d-of-%d" % (k, len(f2)), {"in.1.fasta": fasta(f1), "in.2.fasta": fasta(f2[:k])}, refs["paired-fasta"]["argv"], cores,
                rng.choice([300, 600]) if cores > 1 else None, "paired-fasta", None)
    # well-formed controls: an even number of records
    for k in (len(finter) - 2, 2):
        for cores in [1, rng.choice(multi)]:
            add("paired", "interleaved-fasta:%d-records" % k, {"in.inter.fasta": fasta(finter[:k])}, refs["interleaved-fasta"]["argv"], cores, 300 if cores > 1 else None,
                "interleaved-fasta", [rid(r[0]) for r in finter[:k][::2]])
    # ---- corpus: earlier failures run first
    cp = os.path.join(core.VERIF, "corpus", "C12.json")
    if os.path.exists(cp):
        for i, doc in enumerate(json.load(open(cp))):
            key = "corpus%d" % i
            if doc["kind"] == "single":
                nm = list(doc["files"])[0]
                fn = (lambda nm: (lambda d: argv_single(d, nm)))(nm)
            else:
                fn = (lambda il, ex: (lambda d: argv_paired(d, il, ex)))(doc["refkey"].startswith("interleaved"), "fasta" if doc["refkey"].endswith("fasta") else "fastq")
            refs[key] = {"files": {k: bytes.fromhex(v) for k, v in doc["intact"].items()}, "argv": fn}
            jobs.insert(0, {"kind": doc["kind"], "label": "corpus:" + doc["fault"], "files": {k: bytes.fromhex(v) for k, v in doc["files"].items()},
                            "argv": fn, "cores": doc["cores"], "buf": doc["buffer_size"], "refkey": key, "wf": doc.get("well_formed_reads"), "sched": doc.get("sched")})
    # ---- reference runs on the intact inputs (one core)
    try:
        for key, ref in refs.items():
            res = run_one({"dir": os.path.join(root, "ref"), "files": ref["files"], "argv": ref["argv"], "cores": 1, "buf": None, "stdout": ref.get("stdout", False)})
            if res["exit"] != 0:
                ctx.broken.append("reference run on the intact %s input failed: %s" % (key, res["stderr"][-200:]))
            ref["out"] = res["out"]
        for i, j in enumerate(jobs):
            j["dir"] = os.path.join(root, "j%d" % i)
        with ThreadPoolExecutor(max_workers=5) as ex:
            results = list(ex.map(run_one, jobs))
    finally:
        shutil.rmtree(root, ignore_errors=True)
    for j, res in zip(jobs, results):
        wf = j["wf"]
        klass = ("well-formed" if wf is not None else "malformed") + (",cores>1" if j["cores"] > 1 else ",one core")
        dist[klass] = dist.get(klass, 0) + 1
        dist[j["kind"]] = dist.get(j["kind"], 0) + 1
        ctx.count((j["kind"], j["label"], j["cores"], j["buf"]), wf is None)
        probs = judge(j["label"], j, res, refs[j["refkey"]]["out"], wf, j["kind"])
        desc = {"kind": j["kind"], "fault": j["label"], "cores": j["cores"], "buffer_size": j["buf"], "sched": j["sched"], "refkey": j["refkey"],
                "files": {k: v.hex() for k, v in j["files"].items()}, "intact": {k: v.hex() for k, v in refs[j["refkey"]]["files"].items()},
                "well_formed_reads": wf, "exit": res["exit"], "stderr": res["stderr"][-400:], "stdout": bool(j.get("stdout"))}
        if probs:
            sig = probs[0].split(" (")[0]
            sig = "faulty input: " + ("".join(c for c in sig if not c.isdigit()))
            ctx.violation(sig, {"what": probs, **desc}, True)
            continue
        tp = trace_check(res, j["cores"])
        if tp:
            ctx.violation("trace not accepted by Model/Runner.v: " + tp[0], {"what": tp, "trace": res["trace"][:300], **desc}, False)
        if len(ctx.coverage["samples"]) < 6 and wf is None and j["cores"] > 1:
            ctx.sample({"fault": j["label"], "kind": j["kind"], "cores": j["cores"], "exit": res["exit"], "stderr_tail": res["stderr"].strip().split("\n")[-1][:120],
                        "trace_events": len(res["trace"])})
    ctx.coverage["rule"] = (
        "truncation of a plain FASTQ input at byte positions (thorough: every position) and of a gzip input at sampled positions, byte flips in the "
        "gzip stream, seven single-record corruptions at the first/middle/last record, paired inputs with missing, removed or renamed mates and "
        "truncated R1/R2/interleaved files; each with one core and with 2-4 cores (--buffer-size 600/1000/default, perturbed schedules), time bound "
        "%d s; non-trivial = the faulty input is malformed according to the harness' own strict parser; distinct by (fault, cores, buffer size)" % TIMEOUT)
    ctx.coverage["input_distribution"] = dist
    ctx.coverage["search_note"] = "the exit-status / message / no-hang / prefix oracle ran on every enumerated fault (%d runs)" % len(jobs)
    ctx.coverage["trusted_base"] = ctx.coverage["trusted_base"] + [
        "the harness' strict FASTQ parser decides which faulty inputs count as malformed",
        "the trace hook in src/cutadapt/runners.py (guarded by CUTADAPT_VERIF, add-only)",
        "modelled, not verified: exception propagation inside a process, process termination by the OS, closing of output files by cli.main",
    ]


def replay(doc):
    r = doc["replay"]
    root = os.path.join(buildimpl.scratch_root(), "c12-replay")
    files = {k: bytes.fromhex(v) for k, v in r["files"].items()}
    intact = {k: bytes.fromhex(v) for k, v in r["intact"].items()}
    if r["kind"] == "single":
        name = list(files)[0]
        argv = (lambda d: argv_stdout(d, name)) if r.get("stdout") else (lambda d: argv_single(d, name))
    else:
        argv = lambda d: argv_paired(d, r["refkey"].startswith("interleaved"), "fasta" if r["refkey"].endswith("fasta") else "fastq")
    ref = run_one({"dir": root, "files": intact, "argv": argv, "cores": 1, "buf": None, "stdout": bool(r.get("stdout"))})
    bad = []
    for attempt in range(4):
        res = run_one({"dir": root, "files": files, "argv": argv, "cores": r["cores"], "buf": r["buffer_size"], "sched": r.get("sched"), "stdout": bool(r.get("stdout"))})
        bad = judge(r["fault"], r, res, ref["out"], r.get("well_formed_reads"), r["kind"])
        print("C12 replay: fault=%s cores=%d exit=%r timed_out=%s stderr=%s" % (r["fault"], r["cores"], res["exit"], res["timed_out"], res["stderr"].strip()[-200:]))
        if bad:
            break
    print("C12 replay: %s" % (bad or "property holds on this input in 4 attempts"))
    return 1 if bad else 0
