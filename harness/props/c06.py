"""C06 -- multi-core runs give the single-core result under every schedule.
Proof: coq/Properties/C06.v (runner protocol LTS: written output is always the in-order prefix, for every schedule,
worker count and chunking; chunking-independence of the pipeline; additive statistics; bounded schedules).
Correspondence (tie of Model/Runner.v to src/cutadapt/runners.py): the guarded trace hook records every protocol
event of a real `cutadapt -j N` run (reader, workers, main); the extracted model replays the recorded events and must
accept every one of them, end in a terminal state, have written all chunks in order and merged N statistics.
Differential (the search for a failing input, and the tie of the chunking theorems to the code): the same option set
and input is run with one core and with 2-4 cores x several --buffer-size values x perturbed schedules; every output
file (bytes) and the JSON report (minus cores / command line / versions) must be identical."""
import json
import os
import shutil

from .. import core, buildimpl
from .. import sysutil as S
from .. import pairutil as P
from .. import runnerutil as R
from .. import alignutil as U

BUFS = [300, 512, 1000, 4000, None]


def sysprops_revcomp(x):
    return "".join({"A": "T", "C": "G", "G": "C", "T": "A"}.get(c, c) for c in reversed(x))


def scratch(tag):
    d = os.path.join(buildimpl.scratch_root(), tag)
    shutil.rmtree(d, ignore_errors=True)
    os.makedirs(d)
    return d


def gen_case(rng, paired, thorough):
    nmax = 120 if thorough else 60
    if paired:
        pcfg, pairs = P.rand_pcase(rng, npairs=rng.randint(12, nmax))
        return {"paired": True, "cfg": pcfg, "records": pairs}
    cfg, reads = S.rand_case(rng, nreads=rng.randint(12, nmax))
    if len(cfg.adapters) >= 2 and rng.random() < 0.2:
        # adapters may share a name (records of an adapter FASTA with a repeated name, -g x=... -a x=...): the statistics of the
        # workers are still merged adapter by adapter
        import re
        cfg.adapters = tuple((fl, re.sub(r"^ad\d+=", "same=", sp)) for fl, sp in cfg.adapters)
    return {"paired": False, "cfg": cfg, "records": reads}


def tag_names(case):
    """header comments containing '>' and '@' on the first mate / every other read (chunk splitting must not count them)"""
    tag = lambda n, k: n + ((" " if " " not in n else "") + "len>%d@x" % k)
    if case["paired"]:
        case["records"] = [((tag(a[0], i), a[1], a[2]), b) for i, (a, b) in enumerate(case["records"])]
    else:
        case["records"] = [((tag(r[0], i), r[1], r[2]) if i % 2 == 0 else r) for i, r in enumerate(case["records"])]


def write_inputs(case, d):
    cfg = case["cfg"]
    if case["paired"]:
        b = cfg.base
        ext = b.ext()
        if cfg.interleaved_in:
            P.write_records(os.path.join(d, "in.inter." + ext), [r for pr in case["records"] for r in pr], b.fasta)
        else:
            P.write_records(os.path.join(d, "in.1." + ext), [pr[0] for pr in case["records"]], b.fasta)
            P.write_records(os.path.join(d, "in.2." + ext), [pr[1] for pr in case["records"]], b.fasta)
    else:
        S.write_input(d, case["records"], cfg.fasta)


def case_argv(case, d):
    cfg = case["cfg"]
    extra = []
    if case["paired"]:
        argv = cfg.argv(d)
    else:
        if cfg.adapters and case.get("side_files"):
            extra = ["-r", os.path.join(d, "rest.txt"), "--wildcard-file", os.path.join(d, "wild.txt")]
        argv = cfg.argv(d, None, extra)
    if case.get("fasta_out"):
        # FASTQ input, output files named .fasta (optionally compressed): the name decides the format
        # ("=<suffix>": the whole suffix as given, e.g. an upper-case extension, which names the format just the same)
        suffix = case["fasta_out"][1:] if case["fasta_out"].startswith("=") else ".fasta" + case["fasta_out"]
        argv = [a[:-6] + suffix if a.endswith(".fastq") and not os.path.basename(a).startswith("in.") else a for a in argv]
    if case.get("stdout_fasta"):
        # no -o: the reads go to standard output, as FASTA because --fasta says so
        k = argv.index("-o")
        argv = ["--fasta"] + argv[:k] + argv[k + 2:]
    return argv


def run_variant(case, d, cores, buf, sched):
    R.clear_outputs(d)
    res = R.run_cli(case_argv(case, d), d, cores, buffer_size=buf, sched=sched, start_method=("spawn" if case.get("spawn") and cores > 1 else None))
    res["files"] = R.collect_outputs(d)
    if case.get("stdout_fasta"):
        res["files"]["<stdout>"] = res.get("stdout", "").encode("ascii", errors="replace")
    res["report"] = R.report_without_volatile(d)
    return res


def diff_runs(a, b):
    """-> list of differences between two runs"""
    out = []
    if a["timed_out"] or b["timed_out"]:
        return ["timed out: one-core=%s multi-core=%s" % (a["timed_out"], b["timed_out"])]
    if (a["exit"] == 0) != (b["exit"] == 0):
        return ["exit status: one-core %r, multi-core %r (%s)" % (a["exit"], b["exit"], (b["stderr"] or a["stderr"]).strip()[-300:])]
    if a["exit"] != 0:
        return []
    for f in sorted(set(a["files"]) | set(b["files"])):
        x, y = a["files"].get(f), b["files"].get(f)
        if x != y:
            out.append("output file %s differs (one-core %s bytes, multi-core %s bytes)" % (f, None if x is None else len(x), None if y is None else len(y)))
    if a["report"] != b["report"]:
        keys = [k for k in (a["report"] or {}) if (b["report"] or {}).get(k) != a["report"][k]] if a["report"] and b["report"] else ["(missing)"]
        out.append("report differs in " + ",".join(keys))
    return out


def describe(case, d, cores, buf, sched):
    cfg = case["cfg"]
    return {"paired": case["paired"], "cfg": cfg.to_json(), "records": case["records"], "cores": cores, "buffer_size": buf, "sched": sched,
            "side_files": bool(case.get("side_files")), "fasta_out": case.get("fasta_out"), "spawn": bool(case.get("spawn")), "stdout_fasta": bool(case.get("stdout_fasta")),
            "argv": [a.replace(d, "$D") for a in case_argv(case, d)]}


def trace_problems(tv, cores, exit_ok):
    p = []
    if "error" in tv:
        return ["model driver: " + tv["error"]]
    if tv["accepted"] != tv["total"]:
        p.append("event %d of %d (%r) is not enabled in the runner model" % (tv["accepted"], tv["total"], tv["first_rejected"]))
        return p
    if exit_ok:
        if not tv["terminal"] or not tv["ok"]:
            p.append("run succeeded but the replayed model state is not a finished state")
        if tv["written"] != list(range(tv["chunks"])):
            p.append("model wrote chunks %r, expected 0..%d in order" % (tv["written"][:20], tv["chunks"] - 1))
        if tv["merged"] != tv["chunks"]:
            p.append("the merged statistics count %d processed chunks, expected %d" % (tv["merged"], tv["chunks"]))
    return p


def check_case(ctx, case, d, variants, dist):
    write_inputs(case, d)
    ref = run_variant(case, d, 1, None, None)
    ok = ref["exit"] == 0 and not ref["timed_out"]
    dist["one_core_ok" if ok else "one_core_rejected"] = dist.get("one_core_ok" if ok else "one_core_rejected", 0) + 1
    for cores, buf, sched in variants:
        res = run_variant(case, d, cores, buf, sched)
        if res["exit"] not in (0, None) and "does not fit into buffer" in res["stderr"] + res["stdout"]:
            dist["buffer_too_small"] = dist.get("buffer_too_small", 0) + 1
            continue
        diffs = diff_runs(ref, res)
        nchunks = len([1 for l in res["trace"] if l.startswith("send ")])
        ctx.count((json.dumps(case["cfg"].to_json(), sort_keys=True), cores, buf, sched, len(case["records"])), ok and nchunks > 1)
        dist["chunks>1" if nchunks > 1 else "chunks<=1"] = dist.get("chunks>1" if nchunks > 1 else "chunks<=1", 0) + 1
        dist["cores=%d" % cores] = dist.get("cores=%d" % cores, 0) + 1
        if diffs:
            ctx.violation("multi-core differs: " + diffs[0].split(" (")[0], {"what": diffs, **describe(case, d, cores, buf, sched)}, True)
            continue
        if res["exit"] == 0:
            tv = R.validate_trace(res["trace"], cores)
            dist["trace_events"] = dist.get("trace_events", 0) + tv.get("total", 0)
            probs = trace_problems(tv, cores, True)
            if probs:
                ctx.violation("trace not accepted by Model/Runner.v: " + probs[0], {"what": probs, "trace": res["trace"][:400], **describe(case, d, cores, buf, sched)}, False)
    return ok


def variants_for(rng, quick):
    vs = []
    k = 2 if quick else 4
    for _ in range(k):
        vs.append((rng.choice([2, 3, 4]), rng.choice(BUFS[:4] if rng.random() < 0.8 else BUFS), rng.randrange(1, 10**6) if rng.random() < 0.7 else None))
    return vs


def check(ctx):
    ctx.coq()
    ctx.model()
    buildimpl.activate()
    rng = ctx.rng
    dist = {}
    d = scratch("c06")
    try:
        # corpus first
        cp = os.path.join(core.VERIF, "corpus", "C06.json")
        if os.path.exists(cp):
            for doc in json.load(open(cp)):
                case = case_from_doc(doc)
                check_case(ctx, case, d, [(doc["cores"], doc["buffer_size"], doc.get("sched"))], dist)
        # a family that is rare among the random cases: interleaved FASTA input whose header comments contain '>' and '@'
        # (the reader must keep mates together and must not take a '>' inside a header for a record start), small chunks
        for _ in range(2 if ctx.quick else 10):
            for _try in range(80):
                case = gen_case(rng, True, not ctx.quick)
                bb = case["cfg"].base
                if bb.fasta and not bb.strip_suffix and bb.rename is None:
                    break
            else:
                continue
            case["cfg"].interleaved_in = True
            case["side_files"], case["fasta_out"] = False, None
            tag_names(case)
            check_case(ctx, case, d, [(rng.choice([2, 3]), rng.choice([300, 512]), None), (2, 1000, rng.randrange(1, 10**6))], dist)
            dist["interleaved FASTA with '>' in headers"] = dist.get("interleaved FASTA with '>' in headers", 0) + 1
        # another rare family: an 'anywhere' adapter (-b) with --revcomp, copies on both strands, small chunks: the per-adapter
        # statistics (5'/3' histograms, matches on the reverse complement) are summed over the workers
        for _ in range(2 if ctx.quick else 12):
            ad = U.rand_seq(rng, 10, "ACGT")
            cfg = S.Cfg(adapters=(("-b", "ad0=" + ad),), revcomp=True, fasta=rng.random() < 0.3, info_file=rng.random() < 0.5)
            recs = []
            for i in range(rng.randint(30, 60)):
                body = U.rand_seq(rng, rng.choice([8, 15, 25]), "ACGT")
                form = rng.random()
                seq = ad + body if form < 0.25 else (body + ad if form < 0.5 else (sysprops_revcomp(ad + body) if form < 0.75 else (sysprops_revcomp(body + ad) if form < 0.9 else body)))
                recs.append(("r%d" % i, seq, None if cfg.fasta else "".join(chr(33 + rng.randint(15, 40)) for _ in seq)))
            case = {"paired": False, "cfg": cfg, "records": recs, "side_files": False, "fasta_out": None}
            check_case(ctx, case, d, [(rng.choice([2, 3]), rng.choice([300, 512]), None), (2, 1000, rng.randrange(1, 10**6))], dist)
            dist["-b with --revcomp"] = dist.get("-b with --revcomp", 0) + 1
        # no reads at all (empty FASTQ / FASTA, single-end and paired): every worker stays idle, the report must still be the one-core one
        for _ in range(2 if ctx.quick else 6):
            paired = rng.random() < 0.4
            base = S.Cfg(adapters=(("-a", "ad0=" + U.rand_seq(rng, 10, "ACGT")),), fasta=rng.random() < 0.4, info_file=rng.random() < 0.5,
                         min_len=rng.choice([None, 5]), qcut=None)
            case = {"paired": paired, "cfg": (P.PCfg(base=base, adapters2=(("-A", "bd0=" + U.rand_seq(rng, 8, "ACGT")),)) if paired else base),
                    "records": [], "side_files": False, "fasta_out": None}
            check_case(ctx, case, d, [(rng.choice([2, 3]), None, None), (2, 512, None)], dist)
            dist["empty input"] = dist.get("empty input", 0) + 1
        # paired-end FASTA in two files under consecutive buffer sizes: wherever the chunk boundary falls relative to the last record
        # (the chunked reader may hand out an empty chunk pair before the final one), the result is that of the one-core run
        for _ in range(1 if ctx.quick else 4):
            ad = U.rand_seq(rng, 10, "ACGT")
            pairs = []
            for i in range(rng.randint(14, 22)):
                s1 = U.rand_seq(rng, rng.randint(18, 40), "ACGT") + (ad if rng.random() < 0.5 else "")
                s2 = U.rand_seq(rng, rng.randint(18, 40), "ACGT")
                pairs.append((("r%d" % i, s1, None), ("r%d" % i, s2, None)))
            case = {"paired": True, "cfg": P.PCfg(base=S.Cfg(fasta=True, adapters=(("-a", "ad0=" + ad),), info_file=rng.random() < 0.5)),
                    "records": pairs, "side_files": False, "fasta_out": None}
            lo = 2 * max(len(a[1]) + len(b[1]) for a, b in pairs) + 20
            check_case(ctx, case, d, [(2, bs, None) for bs in range(lo, lo + (60 if ctx.quick else 120))], dist)
            dist["paired FASTA, consecutive buffer sizes"] = dist.get("paired FASTA, consecutive buffer sizes", 0) + 1
        n = ctx.size(40, 400)
        for k in range(n):
            paired = rng.random() < 0.35
            case = gen_case(rng, paired, not ctx.quick)
            case["side_files"] = rng.random() < 0.3
            bb = case["cfg"].base if paired else case["cfg"]
            if rng.random() < (0.5 if bb.fasta else 0.15) and not bb.strip_suffix and bb.rename is None:
                tag_names(case)
            b = case["cfg"].base if paired else case["cfg"]
            case["fasta_out"] = rng.choice(["", "", ".gz", "=.FASTA", "=.fa", "=.FA", "=.Fasta.gz"]) if (not b.fasta and rng.random() < 0.25) else None
            case["spawn"] = rng.random() < 0.12
            if not paired and not b.demux and not b.fasta and case["fasta_out"] is None and rng.random() < 0.1:
                case["stdout_fasta"] = True
            ok = check_case(ctx, case, d, variants_for(rng, ctx.quick), dist)
            dist["paired" if paired else "single"] = dist.get("paired" if paired else "single", 0) + 1
            if ok and k < 40:
                ctx.sample({"argv": [a.replace(d, "$D") for a in case_argv(case, d)][:30], "records": len(case["records"])})
        # records so long that the chunked reader hands out chunks of a single record (interleaved FASTA keeps mates together)
        from . import c19
        ld = os.path.join(d, "long")
        os.makedirs(ld, exist_ok=True)
        c19.part_long_records(ctx, ld, dist)
    finally:
        shutil.rmtree(d, ignore_errors=True)
    ctx.coverage["rule"] = (
        "random valid single-end and paired-end option sets (all modifiers, filters, redirect files, demultiplexing, info/rest/wildcard files) on "
        "12-120 records; each compared between one core and 2-4 cores x --buffer-size in {300,512,1000,4000,default} x perturbed schedules "
        "(CUTADAPT_VERIF_SCHED); every recorded protocol trace replayed in the extracted runner model; non-trivial = the one-core run "
        "succeeded and the multi-core run used more than one chunk; distinct by (option set, cores, buffer size, schedule seed)")
    ctx.coverage["input_distribution"] = dist
    ctx.coverage["search_note"] = "the one-core/multi-core differential ran on every generated case (all output files byte-wise, report JSON)"
    ctx.coverage["trusted_base"] = ctx.coverage["trusted_base"] + [
        "the trace hook in src/cutadapt/runners.py (guarded by CUTADAPT_VERIF, add-only) reports the events it stands next to",
        "modelled, not verified: pipes and the need-work queue as unbounded FIFO-per-worker lists / a bag; process start-up, pickling of the pipeline, OS scheduling",
    ]


def case_from_doc(doc):
    if doc["paired"]:
        cfg = P.PCfg.from_json(doc["cfg"])
        recs = [tuple(tuple(r) for r in pr) for pr in doc["records"]]
    else:
        cfg = S.Cfg.from_json(doc["cfg"])
        recs = [tuple(r) for r in doc["records"]]
    return {"paired": doc["paired"], "cfg": cfg, "records": recs, "side_files": doc.get("side_files", False), "fasta_out": doc.get("fasta_out"),
            "spawn": doc.get("spawn", False), "stdout_fasta": doc.get("stdout_fasta", False)}


def replay(doc):
    r = doc["replay"]
    if r.get("kind") == "long":
        from . import c19
        return c19.replay(doc)
    case = case_from_doc(r)
    d = scratch("c06-replay")
    try:
        write_inputs(case, d)
        ref = run_variant(case, d, 1, None, None)
        bad = []
        for attempt in range(5):
            res = run_variant(case, d, r["cores"], r["buffer_size"], r.get("sched"))
            bad = diff_runs(ref, res)
            if bad:
                break
        print("C06 replay: %s" % (bad or "no difference in 5 attempts"))
        return 1 if bad else 0
    finally:
        shutil.rmtree(d, ignore_errors=True)
