"""C20 -- see harness/sysprops.py (system-level check: proof obligations of coq/Properties/C20.v,
pipeline-model correspondence with cutadapt.cli.main, oracle_C20 on the implementation's outputs)."""
from .. import sysprops


def check(ctx):
    sysprops.run(ctx, "C20")


def replay(doc):
    return sysprops.replay(doc, "C20")
