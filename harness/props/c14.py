"""C14 -- poly-A, N-end trimming, N counts, expected errors.
Proof: coq/Properties/C14.v.  Correspondence: poly_a_trim_index, PolyATrimmer, NEndTrimmer,
TooManyN vs the extracted model; expected_errors vs the PrimFloat twin evaluated by
vm_compute (bit-exact).  Oracle (search only): brute force from the property text."""
import itertools
import math
import re

from .. import core, buildimpl


def enc(s):
    return " ".join(str(ord(c)) for c in s)


def dec(s):
    return "".join(chr(int(x)) for x in s.split())


def gen_cases(ctx):
    rng = ctx.rng
    cases = []
    maxlen = ctx.size(8, 11)
    for n in range(0, maxlen + 1):
        for t in itertools.product("ATC", repeat=n):
            s = "".join(t)
            cases.append(("polya", s, 0))
            cases.append(("polya", s, 1))
    for _ in range(ctx.size(5000, 150000)):
        n = rng.choice((0, 1, 2, 3, 4, 5, 9, 10, 11, 20, 21, 50, 100))
        tail = rng.randint(0, n)
        other = rng.choice((0, 1, tail // 5, tail // 5 + 1, max(0, tail // 5 - 1), tail // 4))
        rev = rng.randint(0, 1)
        tchar = "T" if rev else "A"
        t = [tchar] * tail
        for _ in range(min(other, tail)):
            t[rng.randrange(tail)] = rng.choice("CGNa" + ("A" if rev else "T"))
        body = [rng.choice("ACGT") for _ in range(n - tail)]
        s = "".join(t + body) if rev else "".join(body + t)
        cases.append(("polya", s, rev))
        cases.append(("polyatrimmer", s, rev))
    for n in range(0, ctx.size(7, 9)):
        for t in itertools.product("NAn", repeat=n):
            cases.append(("trimn", "".join(t)))
            cases.append(("ncount", "".join(t)))
    for _ in range(ctx.size(2000, 40000)):
        n = rng.choice((0, 1, 5, 20, 60))
        a, b = rng.randint(0, n), rng.randint(0, n)
        s = "".join("N" if (i < a or i >= n - b) else rng.choice("ACGTNn") for i in range(n))
        cases.append(("trimn", s))
        cases.append(("ncount", s))
    return cases


def gen_ee(ctx):
    rng = ctx.rng
    cases = []
    for n in range(0, 14):  # every length class mod 4, all tail shapes
        for _ in range(ctx.size(20, 200)):
            cases.append("".join(chr(33 + rng.randint(0, 93)) for _ in range(n)))
    for _ in range(ctx.size(500, 12000)):
        n = rng.choice((1, 2, 3, 4, 5, 6, 7, 8, 17, 31, 64, 100, 151, 250))
        lo = rng.choice((0, 0, 20, 30))
        cases.append("".join(chr(33 + rng.randint(lo, rng.choice((41, 41, 93)))) for _ in range(n)))
    for q in range(94):  # each table entry on its own: the compiled constants, bit by bit
        cases.append(chr(33 + q))
    # malformed stream: a byte below base or above 126 at every position class
    for _ in range(ctx.size(150, 1500)):
        n = rng.choice((1, 2, 3, 4, 5, 8, 9, 10, 11))
        s = [chr(33 + rng.randint(0, 40)) for _ in range(n)]
        s[rng.randrange(n)] = rng.choice((" ", "\x7f", "\x1f", "!"))
        cases.append("".join(s))
    return cases


def model_line(c):
    k = c[0]
    if k in ("polya", "polyatrimmer"):
        return "polya %s|%d" % (enc(c[1]), c[2])
    if k == "trimn":
        return "trimn %s" % enc(c[1])
    if k == "ncount":
        return "ncount %s" % enc(c[1])
    raise ValueError(k)


def impl_run(c):
    from cutadapt.qualtrim import poly_a_trim_index
    from cutadapt.modifiers import PolyATrimmer, NEndTrimmer
    from cutadapt.predicates import TooManyN
    from cutadapt.info import ModificationInfo
    from dnaio import SequenceRecord

    k = c[0]
    if k == "polya":
        return "%d" % poly_a_trim_index(c[1], revcomp=bool(c[2]))
    if k == "polyatrimmer":
        r = SequenceRecord("r", c[1], "".join(chr(33 + (i % 93)) for i in range(len(c[1]))))
        m = PolyATrimmer(revcomp=bool(c[2]))
        o = m(r, ModificationInfo(r))
        # recover the index the modifier used from what it kept
        if c[2]:
            idx = len(c[1]) - len(o.sequence)
            okslice = o.sequence == c[1][idx:] and o.qualities == r.qualities[idx:]
            hist = dict(m.trimmed_bases) == {idx: 1}
        else:
            idx = len(o.sequence)
            okslice = o.sequence == c[1][:idx] and o.qualities == r.qualities[:idx]
            hist = dict(m.trimmed_bases) == {len(c[1]) - idx: 1}
        return "%d" % idx if (okslice and hist) else "BAD slice=%s hist=%s" % (okslice, dict(m.trimmed_bases))
    if k == "trimn":
        r = SequenceRecord("r", c[1], "".join(chr(33 + (i % 93)) for i in range(len(c[1]))))
        o = NEndTrimmer()(r, ModificationInfo(r))
        a = len(c[1]) - len(c[1].lstrip("N")) if o.sequence else 0
        # qualities must be the same slice
        pos = r.qualities.find(o.qualities) if o.qualities else 0
        if len(o.sequence) != len(o.qualities) or (o.sequence and c[1][pos:pos + len(o.sequence)] != o.sequence):
            return "BAD qualities out of step"
        return enc(o.sequence)
    if k == "ncount":
        r = SequenceRecord("r", c[1])
        info = ModificationInfo(r)
        for cnt in range(0, len(c[1]) + 1):
            if not TooManyN(cnt).test(r, info):
                return "%d" % cnt
        return "BAD"


def impl_ee(q):
    from cutadapt.qualtrim import expected_errors

    try:
        return expected_errors(q).hex()
    except ValueError:
        return "None"


def model_ee(cases):
    prelude = "From Coq Require Import ZArith List PrimFloat.\nFrom CV Require Import Model.ExpErrInst.\nImport ListNotations.\nOpen Scope Z_scope.\n"
    out = []
    shard = 400
    for i in range(0, len(cases), shard):
        terms = ["expected_errors_f 33 [%s]" % "; ".join(str(ord(ch)) for ch in q) for q in cases[i:i + shard]]
        vals = core.coq_eval(prelude, terms)
        for v in vals:
            if v.startswith("None"):
                out.append("None")
            else:
                m = re.match(r"Some\s+\(?(-?[0-9.eE+\-]+|infinity|nan)\)?%float", v) or re.match(r"Some\s+\(?(-?[0-9.eE+\-]+)\)?", v)
                out.append(float(m.group(1)).hex())
    return out


# ------------------------------------------------------------ oracle (property text)
def spec_polya(s, rev):
    n = len(s)
    best, bi = 0, 0
    # candidates: suffix (prefix) lengths j = 0..n ; shortest on ties
    for j in range(1, n + 1):
        part = s[:j] if rev else s[n - j:]
        t = "T" if rev else "A"
        good = part.count(t)
        other = j - good
        if other * 5 <= j:
            sc = good - 2 * other
            if sc > best:
                best, bi = sc, j
    if bi < 3:
        bi = 0
    return bi if rev else n - bi


def oracle(c, out):
    k = c[0]
    if out.startswith("BAD"):
        return out
    if k in ("polya", "polyatrimmer"):
        exp = spec_polya(c[1], c[2])
        if int(out) != exp:
            return "poly-%s index %s, definition gives %d" % ("T" if c[2] else "A", out, exp)
    elif k == "trimn":
        if dec(out) != c[1].strip("N"):
            return "trim-n result %r is not the read minus its maximal N runs" % dec(out)
    elif k == "ncount":
        exp = sum(1 for ch in c[1] if ch in "Nn")
        if int(out) != exp:
            return "N count %s, expected %d" % (out, exp)
    return None


def oracle_ee(q, out):
    valid = all(33 <= ord(ch) <= 126 for ch in q)
    if not valid:
        return None if out == "None" else "invalid quality byte accepted"
    if out == "None":
        return "valid quality string rejected"
    exp = math.fsum(10 ** (-(ord(ch) - 33) / 10) for ch in q)
    got = float.fromhex(out)
    if abs(got - exp) > 1e-9 * max(exp, 1e-300):
        return "expected_errors=%r, sum of 10^(-Q/10)=%r" % (got, exp)
    return None


def check(ctx):
    ctx.coq()
    ctx.model()
    ctx.coverage["trusted_base"] += [
        "C14_ee_table only: the real-number axioms of Coq's standard library (ClassicalDedekindReals.sig_forall_dec, sig_not_dec, "
        "FunctionalExtensionality.functional_extensionality_dep, Classical_Prop.classic) and the Interval/Flocq/Coquelicot libraries "
        "(interval tactic; it computes with Coq's primitive 63-bit integers where available)",
        "PrimFloat (IEEE binary64 primitive floats of the Coq kernel/VM) for the executable float twin used in the correspondence only; "
        "the accumulated rounding error of the double summation is NOT covered by a theorem (C14_ee_unrolled is exact arithmetic)",
        "translate/eetable.py (regex over expected_errors.h; emulates long-double -> double conversion of the L-suffixed literals)",
    ]
    buildimpl.activate()
    cases = gen_cases(ctx)
    impl_out = [impl_run(c) for c in cases]
    model_ok = not any("extraction" in b for b in ctx.broken)
    model_out = core.model_run([model_line(c) for c in cases]) if model_ok else [None] * len(cases)
    bad = core.diff_cases(ctx, "polya/trimn/ncount", cases, impl_out, model_out, None)
    dist = {}
    for c, o in zip(cases, impl_out):
        n = len(c[1])
        if c[0] in ("polya", "polyatrimmer"):
            nontrivial = o.isdigit() and int(o) != (0 if c[2] else n)
        elif c[0] == "trimn":
            nontrivial = dec(o) != c[1] if not o.startswith("BAD") else True
        else:
            nontrivial = o != "0"
        ctx.count(c, nontrivial)
        dist[c[0]] = dist.get(c[0], 0) + 1
    for i, c in enumerate(cases):
        why = oracle(c, impl_out[i])
        if why:
            ctx.violation("%s: %s" % (c[0], why.split(",")[0][:60]), {"case": list(c), "observed": impl_out[i], "why": why})
    for i in bad[:20]:
        ctx.violation("correspondence:%s" % cases[i][0], {"case": list(cases[i]), "impl": impl_out[i], "model": model_out[i]}, found_input=False)
    # expected errors, bit-exact against the PrimFloat twin
    ee = gen_ee(ctx)
    ee_impl = [impl_ee(q) for q in ee]
    try:
        ee_model = model_ee(ee)
    except Exception as e:  # the twin does not build/evaluate: correspondence broken
        ctx.broken.append("expected_errors float twin could not be evaluated: %s" % str(e)[:300])
        ee_model = [None] * len(ee)
    ee_bad = [i for i in range(len(ee)) if ee_impl[i] != ee_model[i]]
    ctx.notes["correspondence"]["expected_errors(bit-exact, vm_compute)"] = {"cases": len(ee), "disagreements": len(ee_bad)}
    for i, q in enumerate(ee):
        ctx.count(("ee", q), ee_impl[i] != "None" and len(q) > 0)
        why = oracle_ee(q, ee_impl[i])
        if why:
            ctx.violation("ee: %s" % why.split(",")[0][:50], {"case": ["ee", [ord(ch) for ch in q]], "observed": ee_impl[i], "why": why})
    for i in ee_bad[:20]:
        ctx.violation("correspondence:expected_errors", {"case": ["ee", [ord(ch) for ch in ee[i]]], "impl": ee_impl[i], "model": ee_model[i]}, found_input=False)
    # very long reads (long-read technologies): the same quality value tens of thousands of times; oracle only (run-length encoded)
    rng = ctx.rng
    longs = [[(43, 65536)], [(73, 70000)], [(rng.choice([35, 43, 53, 63]), rng.choice([65535, 65536, 65537, 131072])), (73, 5)],
             [(rng.randint(33, 80), rng.randint(20000, 90000)) for _ in range(3)]]
    for runs in longs:
        q = "".join(chr(ch) * n for ch, n in runs)
        out = impl_ee(q)
        ctx.count(("ee-long", tuple(runs)), True)
        why = oracle_ee(q, out)
        if why:
            ctx.violation("ee: %s" % why.split(",")[0][:50], {"case": ["ee-long", [list(r) for r in runs]], "observed": out, "why": why})
    dist["ee_long"] = len(longs)
    dist["ee"] = len(ee)
    dist["ee_invalid"] = sum(1 for x in ee_impl if x == "None")
    dist["ee_len_mod4"] = {str(r): sum(1 for q in ee if len(q) % 4 == r) for r in range(4)}
    ctx.coverage["input_distribution"] = dist
    ctx.coverage["rule"] = (
        "poly-A/T: exhaustive over {A,T,C} up to length %d in both orientations + seeded tails at the 20%% boundary; trim-n/N-count: exhaustive over "
        "{N,A,n} up to length %d + random; expected errors: all lengths 0..13, random long strings, each of the 94 table entries alone, and a malformed stream; "
        "non-trivial = something trimmed / N present / valid non-empty quality string; distinct by full case" % (ctx.size(8, 11), ctx.size(6, 8))
    )
    for c in cases[:: max(1, len(cases) // 4)]:
        ctx.sample({"case": list(c), "impl": impl_out[cases.index(c)]})
    ctx.sample({"case": ["ee", ee[20]], "impl": ee_impl[20], "model": ee_model[20]})
    ctx.coverage["search_note"] = "brute-force oracles from the property text were run on all %d + %d cases" % (len(cases), len(ee))


def replay(doc):
    c = doc["replay"]["case"]
    if c[0] in ("ee", "ee-long"):
        q = "".join(chr(x) for x in c[1]) if c[0] == "ee" else "".join(chr(ch) * n for ch, n in c[1])
        out = impl_ee(q)
        why = oracle_ee(q, out)
    else:
        out = impl_run(tuple(c))
        why = oracle(tuple(c), out)
    print("case", c, "->", out, "|", why or "property holds on this input")
    return 1 if why else 0
