"""System-level correspondence machinery shared by C03, C04, C09, C10, C11, C15, C16, C17, C20:
structured option sets -> argv for cutadapt.cli.main (in-process, implementation rebuilt from the
working tree) and -> one `pipeline` line for the extracted model; canonical comparison of output
files, info file and the counts of the JSON report."""
import io
import json
import os
import shutil
import sys

from . import alignutil as U

ACTIONS = ["trim", "mask", "lowercase", "retain", "crop", "none"]
CAT = {"too_short": 1, "too_long": 2, "too_many_n": 3, "too_many_expected_errors": 4, "too_high_average_error_rate": 5,
       "casava_filtered": 6, "discard_trimmed": 7, "discard_untrimmed": 8}
CAT_INV = {v: k for k, v in CAT.items()}


class Cfg:
    """one single-end option set (everything the model knows about)"""

    FIELDS = dict(
        cuts=(), nextseq=None, qcut=None, qbase=33, adapters=(), error_rate=None, overlap=None, no_indels=False, no_wild=False,
        read_wild=False, times=1, action="trim", revcomp=False, poly_a=False, length=None, trim_n=False, length_tag=None,
        strip_suffix=(), prefix="", suffix="", zero_cap=False, min_len=None, max_len=None, max_n=None, max_ee=None, max_aer=None,
        casava=False, discard_trimmed=False, discard_untrimmed=False, untrimmed_output=False, too_short_output=False,
        too_long_output=False, demux=False, info_file=False, fasta=False, rename=None,
        report_minimal=False,   # --report=minimal: the one-line tabular report on stdout must agree with the JSON report
        demux_twice=False, # {name} occurs twice in the output path (every occurrence is replaced)
        side_files=(),     # subset of ("rest", "wildcard"): --rest-file / --wildcard-file, which must not influence anything else
        index=False,       # True: run without --no-index (adapter sets for which no index can be built, C09; indexed sets: oracles only)
    )

    def __init__(self, **kw):
        for k, v in self.FIELDS.items():
            setattr(self, k, kw.pop(k, v))
        if kw:
            raise TypeError("unknown option(s) %r" % sorted(kw))

    def to_json(self):
        return {k: (list(getattr(self, k)) if isinstance(getattr(self, k), tuple) else getattr(self, k)) for k in self.FIELDS}

    @staticmethod
    def from_json(d):
        d = dict(d)
        for k in ("cuts", "adapters", "strip_suffix", "side_files"):
            if k in d:
                d[k] = tuple(tuple(x) if isinstance(x, list) else x for x in d[k])
        return Cfg(**d)

    # ---- argv
    def option_groups(self, d):
        """list of argv fragments, one per option (so that C10 can permute them); d = scratch dir"""
        g = []
        for c in self.cuts:
            g.append(["-u", str(c)])
        if self.nextseq is not None:
            g.append(["--nextseq-trim", str(self.nextseq)])
        if self.qcut is not None:
            g.append(["-q", self.qcut])
        if self.qbase != 33:
            g.append(["--quality-base", str(self.qbase)])
        for flag, spec in self.adapters:
            g.append([flag, spec])
        if self.error_rate is not None:
            g.append(["-e", repr(self.error_rate)])
        if self.overlap is not None:
            g.append(["-O", str(self.overlap)])
        if self.no_indels:
            g.append(["--no-indels"])
        if self.no_wild:
            g.append(["-N"])
        if self.read_wild:
            g.append(["--match-read-wildcards"])
        if self.times != 1:
            g.append(["-n", str(self.times)])
        if self.action != "trim":
            g.append(["--action=" + self.action])
        if self.revcomp:
            g.append(["--revcomp"])
        if self.poly_a:
            g.append(["--poly-a"])
        if self.length is not None:
            g.append(["-l", str(self.length)])
        if self.trim_n:
            g.append(["--trim-n"])
        if self.length_tag is not None:
            g.append(["--length-tag", self.length_tag])
        for s in self.strip_suffix:
            g.append(["--strip-suffix", s])
        if self.prefix:
            g.append(["-x", self.prefix])
        if self.suffix:
            g.append(["-y", self.suffix])
        if self.zero_cap:
            g.append(["-z"])
        if self.rename is not None:
            g.append(["--rename", self.rename])
        if self.min_len is not None:
            g.append(["-m", str(self.min_len)])
        if self.max_len is not None:
            g.append(["-M", str(self.max_len)])
        if self.max_n is not None:
            g.append(["--max-n", repr(self.max_n) if isinstance(self.max_n, float) else str(self.max_n)])
        if self.max_ee is not None:
            g.append(["--max-ee", repr(self.max_ee)])
        if self.max_aer is not None:
            g.append(["--max-aer", repr(self.max_aer)])
        if self.casava:
            g.append(["--discard-casava"])
        if self.discard_trimmed:
            g.append(["--discard-trimmed"])
        if self.discard_untrimmed:
            g.append(["--discard-untrimmed"])
        if self.untrimmed_output:
            g.append(["--untrimmed-output", os.path.join(d, "untrimmed." + self.ext())])
        if self.too_short_output:
            g.append(["--too-short-output", os.path.join(d, "tooshort." + self.ext())])
        if self.too_long_output:
            g.append(["--too-long-output", os.path.join(d, "toolong." + self.ext())])
        if self.info_file:
            g.append(["--info-file", os.path.join(d, "info.tsv")])
        for k in self.side_files:
            g.append(["--%s-file" % k, os.path.join(d, "side.%s.txt" % k)])
        if self.report_minimal:
            g.append(["--report=minimal"])
        return g

    def ext(self):
        return "fasta" if self.fasta else "fastq"

    def argv(self, d, rng=None, extra=()):
        groups = self.option_groups(d)
        if rng is not None:
            # permute, keeping the relative order of the -u values (the property lets that order matter) and of the
            # adapters (their order breaks ties, C09) and of repeated --strip-suffix
            keep = ("-u", "-a", "-g", "-b", "--strip-suffix")
            kept = [x for x in groups if x[0] in keep]
            rng.shuffle(groups)
            it = iter(kept)
            groups = [next(it) if x[0] in keep else x for x in groups]
        out = ("out.{name}.{name}." if self.demux_twice else "out.{name}.") + self.ext() if self.demux else "out." + self.ext()
        # position 0 is either --no-index or a no-op, so that the fixed positions of the other arguments stay
        argv = ["--cores=1" if self.index else "--no-index", "--json", os.path.join(d, "report.json"), "-o", os.path.join(d, out)]
        for x in groups:
            argv += x
        argv += list(extra)
        argv.append(os.path.join(d, "in." + self.ext()))
        return argv


def oracle_minimal_report(res, paired=False):
    """--report=minimal: header line + one line of figures; every figure must be the one of the JSON report"""
    lines = [l for l in (res.get("stdout") or "").split("\n") if l.strip()]
    rep = res.get("report")
    if len(lines) < 2 or rep is None:
        return "minimal report missing on stdout: %r" % lines[:2]
    head, vals = lines[-2].split("\t"), lines[-1].split("\t")
    if len(head) != len(vals):
        return "minimal report: %d column names, %d values" % (len(head), len(vals))
    row = dict(zip(head, vals))
    rc, bc = rep["read_counts"], rep["basepair_counts"]
    z = lambda x: 0 if x is None else x
    want = {"in_reads": rc["input"], "in_bp": bc["input"], "too_short": z(rc["filtered"].get("too_short")), "too_long": z(rc["filtered"].get("too_long")),
            "too_many_n": z(rc["filtered"].get("too_many_n")), "out_reads": rc["output"], "w/adapters": z(rc.get("read1_with_adapter")),
            "qualtrim_bp": z(bc.get("quality_trimmed_read1")), "out_bp": bc.get("output_read1")}
    if paired:
        want.update({"w/adapters2": z(rc.get("read2_with_adapter")), "qualtrim2_bp": z(bc.get("quality_trimmed_read2")), "out2_bp": bc.get("output_read2")})
    for k, v in want.items():
        if k not in row:
            return "minimal report lacks column %s" % k
        if str(v) != row[k]:
            return "minimal report: %s = %s, the JSON report of the same run says %s" % (k, row[k], v)
    return None


def demux_key(stem, twice):
    """the adapter name a demultiplexed file stands for; with {name} twice in the path both copies must have been replaced"""
    if not twice:
        return stem
    a, _, b = stem.partition(".")
    return a if a == b else stem


# ---------------------------------------------------------------- implementation side
_null = None


def write_input(d, reads, fasta):
    with open(os.path.join(d, "in." + ("fasta" if fasta else "fastq")), "w") as f:
        for name, seq, qual in reads:
            if fasta:
                f.write(">%s\n%s\n" % (name, seq))
            else:
                f.write("@%s\n%s\n+\n%s\n" % (name, seq, qual))


def read_records(path):
    recs = []
    with open(path) as f:
        lines = f.read().split("\n")
    if lines and lines[-1] == "":
        lines.pop()
    i = 0
    while i < len(lines):
        if lines[i].startswith(">"):
            name = lines[i][1:]
            i += 1
            seq = ""
            while i < len(lines) and not lines[i].startswith(">"):
                seq += lines[i]
                i += 1
            recs.append((name, seq, None))
        elif lines[i].startswith("@"):
            recs.append((lines[i][1:], lines[i + 1], lines[i + 3]))
            i += 4
        else:
            raise ValueError("unparsable output file %s at line %d" % (path, i))
    return recs


def reset_impl_state():
    import cutadapt.adapters as A

    A._generate_adapter_name.__defaults__[0][0] = 1


def adapter_objects(cfg):
    """the adapter objects the CLI would build for this option set (parser = C18's business)"""
    from cutadapt.parser import make_adapters_from_specifications

    reset_impl_state()
    params = dict(
        max_errors=0.1 if cfg.error_rate is None else cfg.error_rate,
        min_overlap=3 if cfg.overlap is None else cfg.overlap,
        read_wildcards=cfg.read_wild,
        adapter_wildcards=not cfg.no_wild,
        indels=not cfg.no_indels,
    )
    flagmap = {"-a": "back", "-g": "front", "-b": "anywhere"}
    objs = make_adapters_from_specifications([(flagmap[f], s) for f, s in cfg.adapters], params)
    reset_impl_state()
    return objs


def run_impl(cfg, reads, d, rng=None, extra=()):
    """run cutadapt.cli.main in-process; returns dict(exit=, files=, report=, info=)"""
    import logging
    import cutadapt.cli as cli

    for f in os.listdir(d):
        p = os.path.join(d, f)
        if os.path.isfile(p):
            os.remove(p)
    write_input(d, reads, cfg.fasta)
    argv = cfg.argv(d, rng, extra)
    reset_impl_state()
    if not logging.root.handlers:
        logging.root.addHandler(logging.NullHandler())
    code = 0
    err = None
    old_out, old_err = sys.stdout, sys.stderr
    sys.stdout, sys.stderr = io.StringIO(), io.StringIO()
    try:
        cli.main(argv)
    except SystemExit as e:
        code = e.code if isinstance(e.code, int) else 1
    except Exception as e:  # noqa
        code = -1
        err = "%s: %s" % (type(e).__name__, e)
    finally:
        captured = sys.stdout.getvalue() if hasattr(sys.stdout, "getvalue") else ""
        sys.stdout, sys.stderr = old_out, old_err
    res = {"exit": code, "error": err, "argv": argv, "files": {}, "report": None, "info": None, "stdout": captured}
    if code != 0:
        return res
    ext = cfg.ext()
    names = {"out." + ext: 0, "tooshort." + ext: 1, "toolong." + ext: 2, "untrimmed." + ext: 3}
    for f in sorted(os.listdir(d)):
        p = os.path.join(d, f)
        if f in names:
            res["files"][names[f]] = read_records(p)
        elif f.startswith("out.") and f.endswith("." + ext) and cfg.demux:
            res["files"]["name:" + demux_key(f[4: -len(ext) - 1], cfg.demux_twice)] = read_records(p)
    rp = os.path.join(d, "report.json")
    if os.path.exists(rp):
        res["report"] = json.load(open(rp))
    ip = os.path.join(d, "info.tsv")
    if os.path.exists(ip):
        with open(ip) as f:
            res["info"] = [l.split("\t") for l in f.read().split("\n")[:-1]]
    return res


# ---------------------------------------------------------------- model side
def _single_fields(ad, force=None):
    import cutadapt.adapters as A

    cls = type(ad).__name__
    typ = {v: k for k, v in U.CLASSNAME.items()}[cls]
    m = len(ad.sequence)
    force = bool(getattr(ad, "_force_anywhere", False)) and typ in ("Front", "Back", "RightmostFront")
    return "%d,%s,%d %d %d %d,%d,%s" % (
        U.TYPES.index(typ), U.enc(ad.sequence), int(ad.adapter_wildcards), int(ad.read_wildcards), int(ad.indels), int(force),
        ad.min_overlap, " ".join(map(str, U.thr_table(ad.max_error_rate, m))))


def adapter_field(ad):
    import cutadapt.adapters as A

    if isinstance(ad, A.LinkedAdapter):
        return "L,%s,%d %d,%s,%s" % (U.enc(ad.name), int(ad.front_required), int(ad.back_required),
                                     _single_fields(ad.front_adapter), _single_fields(ad.back_adapter))
    return "S,%s,%s" % (U.enc(ad.name), _single_fields(ad))


def no_index_possible(adapters):
    """at most one anchored 5' and at most one anchored 3' adapter (linked ones are never indexed): AdapterCutter cannot build an index"""
    pre = sum(1 for _, spec in adapters if "..." not in spec and spec.split("=", 1)[-1].startswith("^"))
    suf = sum(1 for _, spec in adapters if "..." not in spec and spec.split("=", 1)[-1].split(";")[0].endswith("$"))
    return pre <= 1 and suf <= 1


def model_supported(cfg, objs):
    """option sets outside what Model/Pipeline.v covers (stated in DESIGN): float thresholds go through vm_compute; runs in which
    an adapter index is in use are compared with the oracles only (Model/Index.v is tied to the code by the C08 check)"""
    if cfg.index and not no_index_possible(cfg.adapters):
        return False
    return cfg.max_ee is None and cfg.max_aer is None and not isinstance(cfg.max_n, float) and cfg.rename is None


def model_line(cfg, objs, reads):
    qc = ""
    if cfg.qcut is not None and cfg.qcut != "0":
        parts = [int(x) for x in cfg.qcut.split(",")]
        if len(parts) == 1:
            parts = [0, parts[0]]
        qc = "%d %d" % tuple(parts)
    flags = [cfg.revcomp, cfg.poly_a, cfg.trim_n, cfg.zero_cap, cfg.casava, cfg.discard_trimmed, cfg.discard_untrimmed,
             cfg.untrimmed_output, cfg.too_short_output, cfg.too_long_output, cfg.demux, cfg.info_file]
    o = lambda v: "" if v is None else str(v)
    fields = [
        " ".join(str(c) for c in cfg.cuts if c != 0), o(cfg.nextseq), qc, str(cfg.qbase), ";".join(adapter_field(a) for a in objs),
        str(cfg.times), str(ACTIONS.index(cfg.action)), " ".join(str(int(x)) for x in flags), o(cfg.length),
        "" if cfg.length_tag is None else U.enc(cfg.length_tag), ";".join(U.enc(s) for s in cfg.strip_suffix), U.enc(cfg.prefix),
        U.enc(cfg.suffix), o(cfg.min_len), o(cfg.max_len), o(cfg.max_n),
        ";".join("%s,%s,%s" % (U.enc(n), U.enc(s), "-" if q is None else U.enc(q)) for n, s, q in reads),
    ]
    return "pipeline " + "|".join(fields)


def dec(s):
    return "".join(chr(int(x)) for x in s.split())


def parse_model(line, objs, cfg):
    """model output line -> same shape as run_impl's canonical view"""
    if line.startswith("ERROR"):
        return {"error": line}
    stats, filt, files, info, events = line.split("|")
    n, total_bp, written, written_bp, with_ad, rc, qtr, polya = (int(x) for x in stats.split())
    res = {"n": n, "total_bp": total_bp, "written": written, "written_bp": written_bp, "with_adapters": with_ad, "rc": rc,
           "qtrimmed": qtr, "polya": polya, "filtered": {}, "files": {}, "info": [], "events": []}
    for x in filt.split():
        c, k = x.split(":")
        res["filtered"][CAT_INV[int(c)]] = int(k)
    for f in files.split("/") if files else []:
        dst, recs = f.split("=", 1)
        dst = int(dst)
        key = dst if dst < 9 else ("name:unknown" if dst == 9 else "name:" + objs[dst - 10].name)
        out = []
        for r in recs.split(";"):
            nm, sq, q = r.split(",")
            out.append((dec(nm), dec(sq), None if q.strip() == "-" else dec(q)))
        res["files"][key] = out
    for row in info.split(";") if info else []:
        res["info"].append([dec(x[1:]) if x[0] == "s" else x[1:] for x in row.split(",")])
    for e in events.split(";") if events else []:
        res["events"].append(tuple(int(x) for x in e.split()))
    return res


def canon_impl(res, cfg, objs):
    """implementation run -> the same shape"""
    rep = res["report"]
    rc_, bp = rep["read_counts"], rep["basepair_counts"]
    out = {
        "n": rc_["input"], "total_bp": bp["input"], "written": rc_["output"], "written_bp": bp["output"],
        "with_adapters": rc_["read1_with_adapter"] or 0, "rc": rc_["reverse_complemented"] or 0,
        "qtrimmed": bp["quality_trimmed"] or 0, "polya": bp["poly_a_trimmed"] or 0,
        "filtered": {k: v for k, v in rc_["filtered"].items() if v is not None},
        "files": {k: v for k, v in res["files"].items()},
        "info": res["info"] or [],
    }
    return out


def tally_events(events, objs):
    """model events -> per adapter: (total_matches, rc, {end: {len: [counts by error]}}, adjacent bases)"""
    out = []
    for idx, _ in enumerate(objs):
        evs = [e for e in events if e[0] == idx]
        ends = {0: {}, 1: {}}
        adj = {"A": 0, "C": 0, "G": 0, "T": 0, "": 0}
        for (_, end, ln, er, ad, rc, first) in evs:
            ends[end].setdefault(ln, {}).setdefault(er, 0)
            ends[end][ln][er] += 1
            if end == 1:
                adj[chr(ad) if ad else ""] += 1
        hist = {}
        for end in (0, 1):
            hist[end] = {ln: [d.get(e, 0) for e in range(max(d) + 1)] for ln, d in ends[end].items()}
        out.append({"total": len(evs), "rc": sum(1 for e in evs if e[5] and e[6]), "hist": hist, "adj": adj})
    return out


def impl_adapter_stats(rep):
    out = []
    for a in rep["adapters_read1"]:
        hist = {}
        adj = None
        for end, key in ((0, "five_prime_end"), (1, "three_prime_end")):
            e = a[key]
            hist[end] = {} if e is None else {row["len"]: row["counts"] for row in e["trimmed_lengths"]}
            if end == 1 and e is not None and e["adjacent_bases"] is not None:
                adj = e["adjacent_bases"]
        out.append({"total": a["total_matches"], "rc": a["on_reverse_complement"] or 0, "hist": hist,
                    "adj": adj or {"A": 0, "C": 0, "G": 0, "T": 0, "": 0}})
    return out


def compare(model, impl, cfg, objs, rep):
    """returns list of differing components"""
    diffs = []
    for k in ("n", "total_bp", "written", "written_bp", "with_adapters", "rc", "qtrimmed", "polya"):
        if model[k] != impl[k]:
            diffs.append("%s: model %r impl %r" % (k, model[k], impl[k]))
    mf = {k: v for k, v in model["filtered"].items()}
    if {k: v for k, v in mf.items() if v} != {k: v for k, v in impl["filtered"].items() if v}:
        diffs.append("filtered: model %r impl %r" % (mf, impl["filtered"]))
    keys = set(model["files"]) | set(impl["files"])
    for k in sorted(keys, key=str):
        a, b = model["files"].get(k, []), impl["files"].get(k, [])
        if a != b:
            diffs.append("file %s: model %r impl %r" % (k, a[:3], b[:3]))
    if cfg.info_file and model["info"] != impl["info"]:
        for x, y in zip(model["info"], impl["info"]):
            if x != y:
                diffs.append("info row: model %r impl %r" % (x, y))
                break
        else:
            diffs.append("info rows: model %d impl %d" % (len(model["info"]), len(impl["info"])))
    if rep is not None:
        ta, tb = tally_events(model["events"], objs), impl_adapter_stats(rep)
        if ta != tb:
            diffs.append("adapter statistics: model %r impl %r" % (ta, tb))
    return diffs


class Scratch:
    def __init__(self):
        from . import buildimpl

        self.d = os.path.join(buildimpl.scratch_root(), "sys")
        os.makedirs(self.d, exist_ok=True)

    def __enter__(self):
        return self.d

    def __exit__(self, *a):
        shutil.rmtree(self.d, ignore_errors=True)


# ---------------------------------------------------------------- generators
def adapter_spec_string(rng, allow_linked=True, anchored_ok=True, named=True, idx=0):
    """(flag, spec) in the documented notation + the bare sequence(s) for planting"""
    m = rng.choice([4, 5, 6, 8, 10, 12])
    seq = U.rand_seq(rng, m, rng.choice(["ACGT", "ACGT", "ACGTN"]))
    if set(seq) <= {"N"}:
        seq = "ACGT"[: m]
    kind = rng.choice(["back", "back", "front", "anywhere", "prefix", "suffix", "nifront", "niback", "rightmost"] + (["linked"] if allow_linked else []))
    if not anchored_ok and kind in ("prefix", "suffix"):
        kind = "back"
    params = ""
    if rng.random() < 0.3:
        params += ";e=%s" % rng.choice(["0", "0.2", "0.25", "1", "2"])
    if rng.random() < 0.3:
        params += ";o=%d" % rng.randint(1, m)
    if rng.random() < 0.15:
        params += ";noindels"
    name = ("ad%d=" % idx) if named else ""
    if kind == "back":
        return "-a", name + seq + params, [seq]
    if kind == "front":
        return "-g", name + seq + params, [seq]
    if kind == "anywhere":
        return "-b", name + seq + params, [seq]
    import re as _re
    if kind == "prefix":
        return "-g", name + "^" + seq + _re.sub(r";o=\d+", "", params), [seq]
    if kind == "suffix":
        return "-a", name + seq + "$" + _re.sub(r";o=\d+", "", params), [seq]
    if kind == "nifront":
        return "-g", name + "X" + seq + params, [seq]
    if kind == "niback":
        return "-a", name + seq + "X" + params, [seq]
    if kind == "rightmost":
        return "-g", name + seq + ";rightmost" + params.replace(";noindels", ""), [seq]
    seq2 = U.rand_seq(rng, rng.choice([4, 5, 6, 8]), "ACGT")
    flag = rng.choice(["-a", "-g"])
    a1 = rng.choice(["", "^", "", "^", "X"]) + seq + rng.choice(["", ";optional", ";required", ";e=0.2"])
    anch2 = rng.choice(["", "$", "", "$", "X"])
    a2 = seq2 + anch2 + rng.choice(["", ";optional", ";required"] + ([";o=3"] if not anch2 else []))
    return flag, name + a1 + "..." + a2, [seq, seq2]


def make_read(rng, idx, plant, fasta, lowercase_ok=True):
    """a read with planted adapter copies, quality tails, N ends, casava / length= name parts"""
    alpha = rng.choice(["ACGT", "ACGT", "ACGTN"])
    body = U.rand_seq(rng, rng.choice([0, 3, 8, 15, 25, 40]), alpha)
    parts = [body]
    if len(plant) >= 2 and rng.random() < 0.35:
        # stacked adapters (several rounds of --times): copies of all adapters in a row before and after the insert
        seqs_ = [rng.choice(s) for s in plant]
        rng.shuffle(seqs_)
        k = rng.randint(0, len(seqs_))
        parts = seqs_[:k] + [body] + seqs_[k:]
        plant = []
    for seqs in plant:
        if rng.random() < 0.7:
            s = rng.choice(seqs)
            s = U.mutate(rng, s, rng.choice([0, 0, 0, 1, 2]), "ACGT")
            cut = rng.random()
            if cut < 0.15:
                s = s[: rng.randint(1, len(s))] if s else s
            elif cut < 0.3:
                s = s[rng.randint(0, max(0, len(s) - 1)):]
            where = rng.random()
            if where < 0.4:
                parts.append(s)
            elif where < 0.8:
                parts.insert(0, s)
            else:
                parts.insert(rng.randint(0, len(parts)), s)
            if rng.random() < 0.5:
                parts.insert(rng.randint(0, len(parts)), U.rand_seq(rng, rng.choice([0, 2, 6, 12]), alpha))
    seq = "".join(parts)
    if rng.random() < 0.15:
        seq = "N" * rng.randint(1, 3) + seq + "N" * rng.randint(0, 3)
    if rng.random() < 0.15:
        seq += "A" * rng.randint(2, 12) + rng.choice(["", "C", "CA"])
    if rng.random() < 0.1:
        seq += "G" * rng.randint(1, 8)
    if lowercase_ok and rng.random() < 0.08:
        seq = seq.lower()
    n = len(seq)
    if fasta:
        qual = None
    else:
        mode = rng.random()
        if mode < 0.4:
            q = [rng.randint(20, 40) for _ in range(n)]
        elif mode < 0.8:
            k1, k2 = rng.randint(0, n), rng.randint(0, n)
            q = [rng.randint(0, 12) if (i < k1 // 3 or i >= n - k2 // 2) else rng.randint(15, 40) for i in range(n)]
        else:
            q = [rng.choice((0, 2, 9, 10, 11, 30)) for _ in range(n)]
        qual = "".join(chr(33 + x) for x in q)
    name = "r%d" % idx
    extra = rng.random()
    if extra < 0.2:
        name += " 1:%s:0:ACGT" % rng.choice("YN")
    elif extra < 0.4:
        name += " length=%d" % n
    elif extra < 0.5:
        name += "/1"
    elif extra < 0.56:
        name += " rc"      # a name that already carries the marker --revcomp appends (output of an earlier run)
    elif extra < 0.6:
        name += ";length=%d" % n      # the length tag inside the read ID (no space in front of it)
    elif extra < 0.65:
        name += rng.choice(["_t/1", "/1_t", "_t"])   # suffixes stacked: --strip-suffix given twice removes them one after the other
    return (name, seq, qual)


def rand_cfg(rng, focus=()):
    """a valid single-end option set inside the modelled fragment.  focus: names of option groups to favour"""
    f = lambda name, p: rng.random() < (0.75 if name in focus else p)
    fasta = rng.random() < 0.12
    c = Cfg(fasta=fasta)
    nad = rng.choice([0, 1, 1, 1, 2, 3]) if "adapters" not in focus else rng.choice([1, 1, 2, 3])
    plant = []
    ads = []
    c.action = rng.choice(ACTIONS) if f("action", 0.4) else "trim"
    for i in range(nad):
        flag, spec, seqs = adapter_spec_string(rng, allow_linked=(c.action != "crop"), idx=i)
        ads.append((flag, spec))
        plant.append(seqs)
    c.adapters = tuple(ads)
    if nad:
        if f("times", 0.25) and c.action not in ("retain", "crop"):
            c.times = rng.choice([2, 3])
        c.revcomp = f("revcomp", 0.2)
        if rng.random() < 0.3:
            c.error_rate = rng.choice([0.0, 0.2, 0.3])
        if rng.random() < 0.3:
            c.overlap = rng.choice([1, 2, 4, 5])
        c.no_indels = rng.random() < 0.15
        c.no_wild = rng.random() < 0.1
        c.read_wild = rng.random() < 0.1
    if f("cut", 0.3):
        a = rng.choice([1, 2, 5, 30, -1, -3, -30, 0])
        c.cuts = (a,)
        if rng.random() < 0.4:
            b = rng.choice([1, 3, 4]) * (-1 if a > 0 else 1)
            c.cuts = (a, b)
    if not fasta:
        if f("nextseq", 0.15):
            c.nextseq = rng.choice([5, 10, 20, 0])   # 0: only the G rule is left (every G counts as -1)
        if f("qual", 0.3):
            c.qcut = rng.choice(["10", "20", "15,10", "0", "5,0", "0,12"])
        c.zero_cap = f("zerocap", 0.1)
        if rng.random() < (0.35 if c.zero_cap else 0.05):
            c.qbase = 64   # --quality-base=64: the generated quality characters then encode values from -31 upwards
    c.poly_a = f("polya", 0.15)
    if f("length", 0.2):
        c.length = rng.choice([0, 3, 10, 20, -3, -10])
    c.trim_n = f("trimn", 0.2)
    if f("names", 0.12):
        c.length_tag = "length="
    if f("names", 0.12):
        c.strip_suffix = rng.choice([("/1",), ("/1",), ("/1",), ("/1", " rc"), ("/1", "_t"), ("_t", "/1")])
    if f("names", 0.15):
        c.prefix = rng.choice(["p_", "{name}_", ""])
        c.suffix = rng.choice(["_s", " {name}", ""])
    # filters
    if f("filters", 0.3):
        c.min_len = rng.choice([0, 1, 5, 10, 20])
        c.too_short_output = rng.random() < 0.4
    if f("filters", 0.25):
        c.max_len = rng.choice([0, 5, 15, 30, 60])
        c.too_long_output = rng.random() < 0.4
    if f("filters", 0.15):
        c.max_n = rng.choice([0, 1, 2, 3])
    c.casava = f("filters", 0.12)
    if nad:
        x = rng.random()
        lim = 0.45 if "filters" in focus or "demux" in focus else 0.25
        if x < lim / 3:
            c.discard_trimmed = True
        elif x < 2 * lim / 3:
            c.discard_untrimmed = True
        elif x < lim:
            c.untrimmed_output = True
        if f("demux", 0.12) and not c.discard_trimmed:
            c.demux = True
            c.demux_twice = rng.random() < 0.25
    c.info_file = f("info", 0.3)
    if nad and f("sidefiles", 0.1) and not any("..." in spec for _, spec in ads):
        # (with a linked adapter --rest-file/--wildcard-file end in an AttributeError traceback: LinkedMatch has neither rest() nor
        # wildcards(); a loud refusal outside the 20 properties, noted in DESIGN.md)
        c.side_files = tuple(k for k in ("rest", "wildcard") if rng.random() < 0.6)
    return c, plant


def rand_case(rng, focus=(), nreads=None):
    cfg, plant = rand_cfg(rng, focus)
    n = nreads if nreads is not None else rng.choice([1, 3, 6, 12])
    reads = [make_read(rng, i, plant, cfg.fasta) for i in range(n)]
    return cfg, reads


def correspond(ctx, cases, component, rng_argv=None):
    """run implementation and model on every case.  Returns list of dicts
    {cfg, reads, objs, impl (raw), impl_c (canonical), model, diffs}"""
    from . import core

    results = []
    lines, idx = [], []
    with Scratch() as d:
        for cfg, reads in cases:
            try:
                objs = adapter_objects(cfg)
            except Exception as e:  # noqa
                results.append({"cfg": cfg, "reads": reads, "skip": "adapter construction failed: %s" % e})
                continue
            raw = run_impl(cfg, reads, d, rng_argv)
            ent = {"cfg": cfg, "reads": reads, "objs": objs, "impl": raw}
            results.append(ent)
            if raw["exit"] == 0 and raw["report"] is not None:
                ent["impl_c"] = canon_impl(raw, cfg, objs)
            if model_supported(cfg, objs):
                lines.append(model_line(cfg, objs, reads))
                idx.append(len(results) - 1)
    model_ok = not any("extraction" in b for b in ctx.broken)
    outs = core.model_run(lines) if (lines and model_ok) else []
    ndiff = 0
    for i, o in zip(idx, outs):
        ent = results[i]
        ent["model"] = parse_model(o, ent["objs"], ent["cfg"])
        if "impl_c" in ent and "error" not in ent["model"]:
            ent["diffs"] = compare(ent["model"], ent["impl_c"], ent["cfg"], ent["objs"], ent["impl"]["report"])
        elif "error" in ent["model"]:
            ent["diffs"] = ["model error: " + ent["model"]["error"]]
        else:
            ent["diffs"] = ["implementation exit %s %s" % (ent["impl"]["exit"], ent["impl"]["error"])]
        if ent["diffs"]:
            ndiff += 1
    ctx.notes.setdefault("correspondence", {})[component] = {"cases": len(outs), "disagreements": ndiff}
    return results
